package main

// Validation-dominance rules, part 2: VD5 (links), VD6 (replay tombstone guards), VD7 (prune policy).

import (
	"fmt"
	"go/constant"
	"go/token"
	"go/types"
	"sort"
	"strings"

	"golang.org/x/tools/go/ssa"
)

func init() {
	register(&Rule{ID: "VD5", Min: 6, Run: ruleVD5,
		Doc: "link-emission-guarded: every \"link\"/\"unlink\" emission outside replay/compaction is dominated, with the same (from,to) values, by: both ids found in graph.Tasks of the graph loaded in this callback, validateDepSelf==nil, validateDepKinds(isEpic(fromItem),isEpic(toItem))==nil, and — wherever the type can be \"link\" — the false edge of hasCycle(graph, from, to); each accepted edge is added to the in-memory graph before the next check; for plan the ends are ids minted in the same callback, looked up in the title map only once every title was entered (ends-complete), and the guards are {self, cycle}; the guards may sit in a validator helper whose nil answer means, alternative by alternative, `not a link` or `the cycle search said no and the edge was inserted`; Graph.RDeps/Task.Deps/Task.RDeps are written only by replay"})
	register(&Rule{ID: "VD6", Min: 6, Run: ruleVD6,
		Doc: "replay-tombstone-guards: in replay the insertion of a created item and the insertion/removal of an edge are dominated by the negative Tombstones lookup of every id they use; the tombstone case applies the tombstone on every non-error path; applying a tombstone records it and removes the id from Tasks, Meta, Deps[id] and every Deps[*][id]"})
	register(&Rule{ID: "VD7", Min: 6, Run: ruleVD7,
		Doc: "prune-policy: the states that make a task eligible are exactly {done, canceled}; epics are eligible only on the remainingChildren==0 edge and the counter is incremented for every non-eligible child of that epic; the commit in prune is dominated by apply==true and a non-empty plan; the tombstoned ids are the ids returned as the plan; the dry-run entry passes the constant false"})
}

// lookupOK: edges on which `m[key]` (comma-ok) found the key, where m is field `field` of some struct and
// the key's canon is keyCanon. want=false selects the not-found edges.
func (c *Ctx) lookupEdges(f *ssa.Function, field, keyCanon string, want bool) map[edge]bool {
	return edgesWhere(f, func(a Atom, holds bool) bool {
		if a.Kind != "bool" || holds != want {
			return false
		}
		// `anyPruned(graph, a, b) == false`: none of the listed keys is in the map
		if !want {
			if cl, _ := callOf(a.X); cl != nil {
				if h := calleeOf(&cl.Call); h != nil && c.InModule(h) {
					if si := c.anyLookupHelper(h, field); si >= 0 && si < len(cl.Call.Args) {
						for _, el := range variadicElems(cl.Call.Args[si : si+1]) {
							if c.canon(el) == keyCanon {
								return true
							}
						}
					}
				}
			}
		}
		ex, ok := strip(a.X).(*ssa.Extract)
		if !ok || ex.Index != 1 {
			return false
		}
		lk, ok := ex.Tuple.(*ssa.Lookup)
		if !ok || !lk.CommaOk {
			return false
		}
		if _, n, ok := fieldLoad(lk.X); !ok || n != field {
			return false
		}
		return c.canon(lk.Index) == keyCanon
	})
}

// anyLookupHelper: h(..., keys []string) bool answers true as soon as one of keys is found in <graph>.<field> and false only
// after all of them were looked at: the index of the keys parameter, -1 when h is not of that form.
func (c *Ctx) anyLookupHelper(h *ssa.Function, field string) int {
	if h == nil || h.Blocks == nil || h.Signature.Results().Len() != 1 || h.Signature.Results().At(0).Type().String() != "bool" {
		return -1
	}
	si := -1
	for i, prm := range h.Params {
		if sl, ok := prm.Type().Underlying().(*types.Slice); ok && sl.Elem().String() == "string" {
			si = i
		}
	}
	if si < 0 {
		return -1
	}
	keys := h.Params[si]
	// the loop and its header
	body := map[*ssa.BasicBlock]bool{}
	for _, b := range h.Blocks {
		if inCycle(b) {
			body[b] = true
		}
	}
	if len(body) == 0 {
		return -1
	}
	var hdr *ssa.BasicBlock
	for b := range body {
		for _, p := range b.Preds {
			if !body[p] {
				hdr = b
			}
		}
	}
	found := edgesWhere(h, func(a Atom, holds bool) bool {
		if a.Kind != "bool" || !holds {
			return false
		}
		ex, ok := strip(a.X).(*ssa.Extract)
		if !ok || ex.Index != 1 {
			return false
		}
		lk, ok := ex.Tuple.(*ssa.Lookup)
		if !ok || !lk.CommaOk {
			return false
		}
		if _, n, ok := fieldLoad(lk.X); !ok || n != field {
			return false
		}
		return derivesFrom(lk.Index, keys)
	})
	if len(found) == 0 {
		return -1
	}
	nTrue, nFalse := 0, 0
	for _, r := range returnsOf(h) {
		if len(r.Results) != 1 {
			return -1
		}
		k, isK := constBool(returnedValue(r, 0))
		if !isK {
			return -1
		}
		if k {
			nTrue++
			if !mustPassEdges(h, r.Block(), found) {
				return -1
			}
			continue
		}
		nFalse++
		// false only once the loop is exhausted: not reachable from a body block other than the header
		for b := range body {
			if b == hdr {
				continue
			}
			for _, sblk := range b.Succs {
				if !body[sblk] && (sblk == r.Block() || reach(sblk, nil, nil)[r.Block()]) {
					return -1
				}
			}
		}
	}
	if nTrue == 0 || nFalse == 0 {
		return -1
	}
	return si
}

// lookupValue: the value (#0) of the comma-ok lookup of field[key] in f, if unique.
func (c *Ctx) lookupValue(f *ssa.Function, field, keyCanon string) ssa.Value {
	var out ssa.Value
	eachInstr(f, func(r instrRef) {
		lk, ok := r.In.(*ssa.Lookup)
		if !ok || !lk.CommaOk {
			return
		}
		if _, n, ok := fieldLoad(lk.X); !ok || n != field || c.canon(lk.Index) != keyCanon {
			return
		}
		for _, u := range *lk.Referrers() {
			if ex, ok := u.(*ssa.Extract); ok && ex.Index == 0 {
				out = ex
			}
		}
	})
	return out
}

func unionEdges(ms ...map[edge]bool) map[edge]bool {
	out := map[edge]bool{}
	for _, m := range ms {
		for e := range m {
			out[e] = true
		}
	}
	return out
}

// ------------------------------------------------------------------ VD5

func ruleVD5(c *Ctx) {
	vs, vk, hc, isEpic, lg := c.anchor("validateDepSelf"), c.anchor("validateDepKinds"), c.anchor("hasCycle"), c.anchor("isEpic"), c.anchor("loadGraph")
	nsid := c.F.Anchors["newShortID"]
	if vs == nil || vk == nil || hc == nil || isEpic == nil || lg == nil {
		return
	}
	n := 0
	c.edgeInsertingTypesGuarded(hc)
	for _, em := range c.emissions() {
		if !(em.has("link") || em.has("unlink")) || c.isReplayOrCompact(em.Fn) {
			continue
		}
		n++
		f := em.Fn
		fn := c.Name(f)
		t := "link"
		if !em.has("link") {
			t = "unlink"
		}
		construct := em.construct(t)
		pos := c.Pos(em.Call.Pos())
		from, to := em.Fields["FromID"], em.Fields["ToID"]
		if from == nil || to == nil {
			c.unk(fn, construct, pos, "link payload not decodable")
			continue
		}
		fc, tc := c.canon(from), c.canon(to)
		blk := em.Call.Block()
		planLike := nsid != nil && c.mintedInCallback(from, nsid) && c.mintedInCallback(to, nsid)
		// self
		gSelf := guardNil(f, vs, func(a []ssa.Value) bool { return len(a) == 2 && c.canon(a[0]) == fc && c.canon(a[1]) == tc })
		c.check(mustPassEdges(f, blk, gSelf), fn, construct+"|self", pos, "dominated by validateDepSelf(from,to)==nil", "not dominated by validateDepSelf(from,to)==nil on the emitted ids: a self-dependency can be recorded")
		// cycle (with bypass for non-link types)
		var graphArg ssa.Value
		cycArgs := func(a []ssa.Value) bool {
			if len(a) == 3 && c.canon(a[1]) == fc && c.canon(a[2]) == tc {
				graphArg = a[0]
				return true
			}
			return false
		}
		gCyc := guardBool(f, hc, false, cycArgs)
		bypassOK := len(em.Types) > 1 || !em.has("link")
		typeCanon := c.canon(em.Call.Call.Args[0])
		notLink := func(a Atom, holds bool) bool {
			return bypassOK && a.Kind == "const" && !holds && a.C.Value != nil && a.C.Value.Kind() == constant.String &&
				constant.StringVal(a.C.Value) == "link" && c.canon(a.X) == typeCanon
		}
		// one edge set for both: a validator helper may return nil either because the type is not "link" or because the
		// cycle search said no (its alternatives are judged one by one)
		isCyc := boolGuardPred(hc, false, cycArgs)
		sawCyc := len(gCyc) > 0
		gCycOrBypass := edgesWhere(f, func(a Atom, holds bool) bool {
			if isCyc(a, holds) {
				sawCyc = true
				return true
			}
			return notLink(a, holds)
		})
		okCyc := mustPassEdges(f, blk, gCycOrBypass) && sawCyc
		if !em.has("link") {
			okCyc = true
		}
		c.check(okCyc, fn, construct+"|cycle", pos, "wherever the type can be \"link\", dominated by hasCycle(graph,from,to)==false",
			"a \"link\" can be emitted without the false edge of hasCycle(graph, from, to) on the emitted ids (in that argument order): a cycle can be recorded")
		// graph used by hasCycle is the one loaded in this callback (or replayed from the log read in this callback)
		if graphArg != nil {
			re := c.F.Anchors["replayEvents"]
			okG := valueFromCallTo(graphArg, lg) || (re != nil && valueFromCallTo(graphArg, re))
			c.check(okG, fn, construct+"|cycle-graph", pos, "cycle check runs on the graph loaded inside this lock callback", "cycle check runs on "+c.canon(graphArg)+", not on the graph loaded in this callback")
		}
		// in-memory graph updated with the accepted edge (so later edges of the same command see it)
		if em.has("link") && inCycle(blk) {
			upd := false
			isDepsInsert := func(mu *ssa.MapUpdate, fromCanon, toCanon string) bool {
				if c.canon(mu.Key) != toCanon {
					return false
				}
				if lk, ok := resolve(mu.Map).(*ssa.Lookup); ok {
					if _, nme, ok := fieldLoad(lk.X); ok && nme == "Deps" && c.canon(lk.Index) == fromCanon {
						return true
					}
				}
				return false
			}
			eachInstr(f, func(r instrRef) {
				if mu, ok := r.In.(*ssa.MapUpdate); ok && isDepsInsert(mu, fc, tc) && mustPassEdges(f, r.Blk, gCyc) {
					upd = true
				}
				// the insertion may live in a small helper called with (graph, from, to)
				if call, ok := r.In.(*ssa.Call); ok {
					h := calleeOf(&call.Call)
					if h == nil || !c.InModule(h) || h.Blocks == nil || !mustPassEdges(f, r.Blk, gCyc) {
						return
					}
					e := env{}
					for i, prm := range h.Params {
						if i < len(call.Call.Args) {
							e[prm] = call.Call.Args[i]
						}
					}
					eachInstr(h, func(r2 instrRef) {
						if mu, ok := r2.In.(*ssa.MapUpdate); ok {
							curEnv = e
							if isDepsInsert(mu, fc, tc) && mustPassNoCond(h, r2.Blk) {
								upd = true
							}
							curEnv = nil
						}
					})
				}
			})
			if !upd {
				upd = c.validatorInsertsEdge(f, blk, hc, fc, tc, typeCanon, bypassOK, isDepsInsert)
			}
			c.check(upd, fn, construct+"|graph-updated", pos, "accepted edge is added to graph.Deps[from][to] before the next edge is checked",
				"edges accepted earlier in the same command are not added to the in-memory graph: a chain can close a cycle through its own earlier edge")
		}
		if planLike {
			c.ok(fn, construct+"|ends", pos, "both ends are ids minted in this callback (plan)")
			// an end read out of the title->id map with a plain m[k] is the zero id "" when the title has not been entered
			// yet: the map has to be complete (no insertion still ahead of the lookup) or the lookup comma-ok tested
			incomplete := ""
			for _, endV := range []ssa.Value{from, to} {
				lk, isLk := resolve(endV).(*ssa.Lookup)
				if !isLk || lk.CommaOk {
					continue
				}
				for _, mu := range c.mapUpdatesOf(resolve(lk.X)) {
					if mu.Parent() == lk.Parent() && canReachInstr(lk, mu) {
						incomplete = c.canon(endV) + " is read at " + c.Pos(lk.Pos()) + " while entries are still being added at " + c.Pos(mu.Pos())
					}
				}
			}
			c.check(incomplete == "", fn, construct+"|ends-complete", pos, "ids are looked up in the title map only after every title was entered",
				"an end of the edge is looked up in a map that is still being filled ("+incomplete+"): a title entered later resolves to the empty id and the edge is recorded to an item that does not exist while the requested edge is lost")
			continue
		}
		// existence + kinds
		gFrom := c.lookupEdges(f, "Tasks", fc, true)
		gTo := c.lookupEdges(f, "Tasks", tc, true)
		okEx := mustPassEdges(f, blk, gFrom) && mustPassEdges(f, blk, gTo)
		c.check(okEx, fn, construct+"|ends", pos, "both ids found in graph.Tasks of this callback's graph", "emission not dominated by successful graph.Tasks lookups of both ids: an edge to a missing or pruned item can be recorded")
		isItemOf := func(v ssa.Value, keyCanon string) bool {
			// v is isEpic(X) with X the value of a comma-ok lookup Tasks[key]
			c0, _ := callOf(v)
			if c0 == nil || calleeOf(&c0.Call) != isEpic {
				return false
			}
			ex, ok := resolveEnv(c0.Call.Args[0], curEnv).(*ssa.Extract)
			if !ok || ex.Index != 0 {
				return false
			}
			lk, ok := ex.Tuple.(*ssa.Lookup)
			if !ok {
				return false
			}
			if _, n, ok := fieldLoad(lk.X); !ok || n != "Tasks" {
				return false
			}
			return c.canon(lk.Index) == keyCanon
		}
		gKinds := guardNil(f, vk, func(a []ssa.Value) bool {
			return len(a) == 2 && isItemOf(a[0], fc) && isItemOf(a[1], tc)
		})
		c.check(mustPassEdges(f, blk, gKinds), fn, construct+"|kinds", pos, "dominated by validateDepKinds(isEpic(fromItem), isEpic(toItem))==nil on the looked-up items",
			"not dominated by validateDepKinds on the kinds of the two looked-up items (in from,to order): a task<->epic edge can be recorded")
	}
	if n == 0 {
		c.bad("<module>", "emit \"link\"#0", "-", "no command-side link emission found")
	}
	// ownership of derived dependency views
	re := c.F.Anchors["replayEvents"]
	badOwn := ""
	for _, fn := range c.Fns {
		if Outermost(fn) == re || c.inUnit(Outermost(fn), re) {
			continue
		}
		eachInstr(fn, func(r instrRef) {
			var addr ssa.Value
			switch x := r.In.(type) {
			case *ssa.Store:
				addr = x.Addr
			case *ssa.MapUpdate:
				addr = x.Map
			default:
				return
			}
			if fa, ok := addr.(*ssa.FieldAddr); ok {
				tn := namedTypeName(fa.X.Type())
				nme := fieldName(fa.X.Type(), fa.Field)
				if (tn == "ergo.Graph" && nme == "RDeps") || (tn == "ergo.Task" && (nme == "Deps" || nme == "RDeps")) {
					if _, isAlloc := fa.X.(*ssa.Alloc); isAlloc {
						return // composite literal initialisation of a fresh value
					}
					badOwn = fmt.Sprintf("%s.%s written in %s at %s", tn, nme, c.Name(fn), c.Pos(r.In.Pos()))
				}
			}
			if _, nme, ok := fieldLoad(addr); ok && nme == "RDeps" {
				badOwn = fmt.Sprintf("RDeps map updated in %s at %s", c.Name(fn), c.Pos(r.In.Pos()))
			}
		})
	}
	c.check(badOwn == "", "<module>", "derived-deps-owned-by-replay", "-", "Graph.RDeps, Task.Deps and Task.RDeps are written only by replay (deps/rdeps mirror each other by construction)", badOwn)
}

// validatorInsertsEdge: the accepted edge is added to the in-memory graph inside a validator helper called on the way to
// the emission (validateLinkEdge(graph, eventType, edge) == nil): in the helper the insertion into Deps[from][to] lies
// behind the cycle search's `no`, and every success return of the helper either took a type-is-not-"link" edge or passed
// the insertion.
func (c *Ctx) validatorInsertsEdge(f *ssa.Function, emit *ssa.BasicBlock, hc *ssa.Function, fc, tc, typeCanon string, bypassOK bool,
	isDepsInsert func(mu *ssa.MapUpdate, fromCanon, toCanon string) bool) bool {
	found := false
	for _, call := range callsIn(f) {
		cv, ok := call.(*ssa.Call)
		h := calleeOf(call.Common())
		if !ok || h == nil || !c.InModule(h) || h.Blocks == nil || errorResultIndex(call) < 0 {
			continue
		}
		if !mustPassEdges(f, emit, nilErrEdges(f, cv)) {
			continue
		}
		e := env{}
		for i, prm := range h.Params {
			if i < len(cv.Call.Args) {
				e[prm] = cv.Call.Args[i]
			}
		}
		gCycH := guardBool(h, hc, false, nil)
		if len(gCycH) == 0 {
			continue
		}
		var insertBlk *ssa.BasicBlock
		eachInstr(h, func(r2 instrRef) {
			if mu, ok := r2.In.(*ssa.MapUpdate); ok {
				curEnv = e
				if isDepsInsert(mu, fc, tc) && mustPassEdges(h, r2.Blk, gCycH) {
					insertBlk = r2.Blk
				}
				curEnv = nil
			}
		})
		if insertBlk == nil {
			continue
		}
		pass := map[edge]bool{}
		for i := range insertBlk.Succs {
			pass[edge{insertBlk, i}] = true
		}
		if bypassOK {
			curEnv = e
			for ed := range edgesWhere(h, func(a Atom, holds bool) bool {
				return a.Kind == "const" && !holds && a.C.Value != nil && a.C.Value.Kind() == constant.String &&
					constant.StringVal(a.C.Value) == "link" && c.canon(resolveEnv(a.X, e)) == typeCanon
			}) {
				pass[ed] = true
			}
			curEnv = nil
		}
		all := true
		for _, r := range c.nonFailingReturns(h) {
			if r.Block() != insertBlk && !mustPassEdges(h, r.Block(), pass) {
				all = false
			}
		}
		if all {
			found = true
		}
	}
	return found
}

// mintedInCallback: v derives from a newShortID call in the same function (through a map filled there).
func (c *Ctx) mintedInCallback(v ssa.Value, nsid *ssa.Function) bool { return c.mintedD(v, nsid, 0) }

func (c *Ctx) mintedD(v ssa.Value, nsid *ssa.Function, d int) bool {
	v = resolve(v)
	if valueFromCallTo(v, nsid) {
		return true
	}
	if prm, ok := v.(*ssa.Parameter); ok && d < 4 {
		// an id handed to a helper/method (addEdge(fromID, toID)): minted at every call site
		args := c.argValues(prm.Parent(), paramIndex(prm))
		if len(args) == 0 {
			return false
		}
		for _, a := range args {
			if !c.mintedD(a, nsid, d+1) {
				return false
			}
		}
		return true
	}
	// lookup in a local map whose stored values derive from newShortID
	var m ssa.Value
	switch x := v.(type) {
	case *ssa.Lookup:
		m = x.X
	case *ssa.Extract:
		if lk, ok := x.Tuple.(*ssa.Lookup); ok {
			m = lk.X
		}
	}
	if m == nil {
		return false
	}
	m = resolve(m)
	if prm, ok := m.(*ssa.Parameter); ok {
		// the map is handed in by the caller(s)
		args := c.argValues(prm.Parent(), paramIndex(prm))
		if len(args) == 0 {
			return false
		}
		for _, a := range args {
			if !c.mapValuesMinted(resolve(a), nsid) {
				return false
			}
		}
		return true
	}
	return c.mapValuesMinted(m, nsid)
}

// mapValuesMinted: every value stored into the map derives from the id generator.
func (c *Ctx) mapValuesMinted(m ssa.Value, nsid *ssa.Function) bool {
	found := false
	for _, mu := range c.mapUpdatesOf(m) {
		if !valueFromCallTo(mu.Value, nsid) {
			return false
		}
		found = true
	}
	return found
}

// ------------------------------------------------------------------ VD6

func ruleVD6(c *Ctx) {
	re := c.anchor("replayEvents")
	at := c.anchor("applyTombstone")
	if re == nil || at == nil {
		return
	}
	fn := c.Name(re)
	rm := c.replay()
	effectFns := []*ssa.Function{re}
	if rm != nil {
		effectFns = rm.EffectFns
	}
	// inserts into Tasks
	nIns, nDel := 0, 0
	for _, ef := range effectFns {
		ef := ef
		negTomb := func(keyCanon string) map[edge]bool { return c.lookupEdges(ef, "Tombstones", keyCanon, false) }
		eachInstr(ef, func(r instrRef) {
			mu, ok := r.In.(*ssa.MapUpdate)
			if !ok {
				return
			}
			_, field, ok := fieldLoad(mu.Map)
			if !ok {
				// nested: Deps[from][to]
				if lk, ok2 := resolve(mu.Map).(*ssa.Lookup); ok2 {
					if _, f2, ok3 := fieldLoad(lk.X); ok3 && f2 == "Deps" {
						nIns++
						kf, kt := c.canon(lk.Index), c.canon(mu.Key)
						okG := mustPassEdges(ef, r.Blk, negTomb(kf)) && mustPassEdges(ef, r.Blk, negTomb(kt))
						c.check(okG, fn, fmt.Sprintf("insert Deps[from][to]#%d", nIns), c.Pos(mu.Pos()),
							"edge insertion dominated by negative tombstone lookups of both ends", "an edge naming a tombstoned id can be inserted: a pruned id's edges come back and block its dependants")
					}
				}
				return
			}
			switch field {
			case "Tasks":
				nIns++
				okG := mustPassEdges(ef, r.Blk, negTomb(c.canon(mu.Key)))
				c.check(okG, fn, fmt.Sprintf("insert Tasks[id]#%d", nIns), c.Pos(mu.Pos()),
					"item creation dominated by the negative tombstone lookup of its id", "a create event for a tombstoned id re-inserts the item: a pruned id comes back")
			case "Deps":
				// creating the inner map: harmless
			}
		})
		// delete of an edge (unlink) — guarded like link
		for _, call := range callsNamed(ef, "builtin delete") {
			a := call.Common().Args
			if lk, ok := resolve(a[0]).(*ssa.Lookup); ok {
				if _, f2, ok := fieldLoad(lk.X); ok && f2 == "Deps" {
					nDel++
					okG := mustPassEdges(ef, call.Block(), negTomb(c.canon(lk.Index))) && mustPassEdges(ef, call.Block(), negTomb(c.canon(a[1])))
					c.check(okG, fn, fmt.Sprintf("delete Deps[from][to]#%d", nDel), c.Pos(call.Pos()), "edge removal dominated by negative tombstone lookups of both ends", "unlink of a tombstoned id is applied")
				}
			}
		}
	}
	// tombstone case: applyTombstone on every non-error path through the case
	// the tombstone case may hand the event to a handler: a helper "always applies" when each of its non-failing
	// returns is dominated by a call to applyTombstone (or to another always-applying helper)
	sw := re
	if rm != nil {
		sw = rm.Switch
	}
	appliesMemo := map[*ssa.Function]int{}
	var applies func(h *ssa.Function, d int) bool
	applyBlocksOf := func(g *ssa.Function, d int) map[*ssa.BasicBlock]bool {
		out := map[*ssa.BasicBlock]bool{}
		for _, call := range callsIn(g) {
			cal := calleeOf(call.Common())
			if cal == nil {
				continue
			}
			if cal == at || (rm != nil && rm.handler[cal] && applies(cal, d+1)) {
				out[call.Block()] = true
			}
		}
		return out
	}
	applies = func(h *ssa.Function, d int) bool {
		if v, ok := appliesMemo[h]; ok {
			return v == 1
		}
		appliesMemo[h] = 2
		if d > 4 || h.Blocks == nil {
			return false
		}
		ab := applyBlocksOf(h, d)
		if len(ab) == 0 {
			return false
		}
		for _, r := range c.nonFailingReturns(h) {
			if ab[r.Block()] {
				continue
			}
			if reach(h.Blocks[0], nil, ab)[r.Block()] {
				return false
			}
		}
		appliesMemo[h] = 1
		return true
	}
	caseEdges := edgesWhere(sw, func(a Atom, holds bool) bool {
		if a.Kind != "const" || !holds || len(a.Env) > 0 || a.C.Value == nil || a.C.Value.Kind() != constant.String || constant.StringVal(a.C.Value) != "tombstone" {
			return false
		}
		_, n, ok := fieldLoad(a.X)
		return ok && n == "Type"
	})
	var calls []ssa.CallInstruction
	for _, ef := range effectFns {
		calls = append(calls, callsTo(ef, at)...)
	}
	re = sw
	applyBlocks := applyBlocksOf(sw, 0)
	if len(caseEdges) == 0 || len(calls) == 0 || len(applyBlocks) == 0 {
		c.bad(fn, "case \"tombstone\"", c.FnPos(re), "replay has no tombstone case that applies tombstones")
	} else {
		// from the case entry, without entering an apply block, no block outside the case body may be reachable
		// except error returns: i.e. we must not reach the loop header (next iteration) or a success return.
		bad := ""
		succ := map[*ssa.BasicBlock]bool{}
		for _, r := range successReturns(re) {
			succ[r.Block()] = true
		}
		for e := range caseEdges {
			region := reach(e.To(), nil, applyBlocks)
			if applyBlocks[e.To()] {
				continue
			}
			for b := range region {
				if succ[b] {
					bad = "a success return is reachable from the tombstone case without applying the tombstone"
				}
				// loop header: a block that dominates the case-entry block and is in a cycle with it
				if b != e.To() && b.Dominates(e.From) && inCycle(b) {
					bad = "the next event is reachable from the tombstone case without applying the tombstone (conditional tombstone): event order can bring a pruned id back"
				}
			}
		}
		c.check(bad == "", fn, "case \"tombstone\"|unconditional", c.Pos(calls[0].Pos()), "every non-error path through the tombstone case applies it", bad)
		// the id applied is the event's id
		idOK := false
		if cv, ok := calls[0].(*ssa.Call); ok && len(cv.Call.Args) >= 2 {
			if _, n, ok := fieldLoad(cv.Call.Args[1]); ok && n == "ID" {
				idOK = true
			}
		}
		c.check(idOK, fn, "case \"tombstone\"|id", c.Pos(calls[0].Pos()), "the tombstone is applied to the event's own ID", "applyTombstone is not called with the event's ID field")
	}
	// applyTombstone body
	an := c.Name(at)
	want := map[string]bool{"record Tombstones[id]": false, "delete Tasks[id]": false, "delete Meta[id]": false, "delete Deps[id]": false, "delete Deps[*][id]": false}
	idParam := ""
	for _, prm := range at.Params {
		if prm.Type().String() == "string" {
			idParam = c.canon(prm)
		}
	}
	eachInstr(at, func(r instrRef) {
		switch x := r.In.(type) {
		case *ssa.MapUpdate:
			if _, f, ok := fieldLoad(x.Map); ok && f == "Tombstones" && c.canon(x.Key) == idParam && !inCycle(r.Blk) {
				if mustPassNoCond(at, r.Blk) {
					want["record Tombstones[id]"] = true
				}
			}
		case *ssa.Call:
			if calleeFullName(&x.Call) != "builtin delete" {
				return
			}
			a := x.Call.Args
			if c.canon(a[1]) != idParam {
				return
			}
			if _, f, ok := fieldLoad(a[0]); ok {
				if mustPassNoCond(at, r.Blk) {
					want["delete "+f+"[id]"] = true
				}
				return
			}
			// deps := range value of graph.Deps
			if inCycle(r.Blk) {
				want["delete Deps[*][id]"] = true
			}
		}
	})
	var keys []string
	for k := range want {
		keys = append(keys, k)
	}
	sort.Strings(keys)
	for _, k := range keys {
		c.check(want[k], an, k, c.FnPos(at), "applied unconditionally (for a non-nil graph)", "applyTombstone no longer performs `"+k+"` unconditionally: the pruned id stays partly visible")
	}
}

// mustPassNoCond: blk is reached on every path from entry except through nil-guard early returns
// (i.e. blk post-dominates entry modulo `x == nil` returns).
func mustPassNoCond(f *ssa.Function, blk *ssa.BasicBlock) bool {
	// every success/normal return must be unreachable when blk is blocked, except returns guarded by a nil check of a parameter
	nilParam := edgesWhere(f, func(a Atom, holds bool) bool {
		if a.Kind != "nil" || !holds {
			return false
		}
		_, ok := a.X.(*ssa.Parameter)
		return ok
	})
	region := reach(f.Blocks[0], nilParam, map[*ssa.BasicBlock]bool{blk: true})
	if blk == f.Blocks[0] {
		return true
	}
	for _, r := range returnsOf(f) {
		if region[r.Block()] {
			return false
		}
	}
	return true
}

// ------------------------------------------------------------------ VD7

// stateConsts: the string constants compared (==/!=) with a load of field `field` inside f, split by whether the
// base of the field is the given subject value (or any when subject is nil).
func (c *Ctx) fieldConsts(f *ssa.Function, field string) map[string]bool {
	out := map[string]bool{}
	for _, bf := range branchFacts(f) {
		curEnv = bf.A.Env
		if bf.A.Kind != "const" || bf.A.C.Value == nil || bf.A.C.Value.Kind() != constant.String {
			continue
		}
		if _, n, ok := fieldLoad(bf.A.X); ok && n == field {
			out[constant.StringVal(bf.A.C.Value)] = true
		}
	}
	return out
}

func setString(m map[string]bool) string {
	var ks []string
	for k := range m {
		ks = append(ks, k)
	}
	sort.Strings(ks)
	return "{" + strings.Join(ks, ",") + "}"
}

func sameSet(m map[string]bool, want ...string) bool {
	if len(m) != len(want) {
		return false
	}
	for _, w := range want {
		if !m[w] {
			return false
		}
	}
	return true
}

func ruleVD7(c *Ctx) {
	sp := c.anchor("selectPruneTargets")
	rp := c.anchor("runPrune")
	if sp == nil || rp == nil {
		return
	}
	fn := c.Name(sp)
	// eligibility constants
	unit := c.unitOf(sp)
	cs := map[string]bool{}
	for _, g := range unit {
		for k := range c.fieldConsts(g, "State") {
			cs[k] = true
		}
	}
	c.check(sameSet(cs, "done", "canceled"), fn, "eligible-states", c.FnPos(sp), "task eligibility compares State with exactly {done, canceled}",
		"task eligibility compares State with "+setString(cs)+", the property says exactly {canceled, done}")
	// eligibility insertion is guarded by State in {done,canceled} (an equality edge) and !IsEpic
	nEl := 0
	var eligibleMap, epicMap ssa.Value
	for _, g := range unit {
		eachInstr(g, func(r instrRef) {
			mu, ok := r.In.(*ssa.MapUpdate)
			if !ok {
				return
			}
			// maps of struct{}: eligibility sets
			if mu.Value.Type().String() != "struct{}" {
				return
			}
			stateEq := edgesWhere(g, func(a Atom, holds bool) bool {
				if a.Kind != "const" || !holds {
					return false
				}
				_, n, ok := fieldLoad(a.X)
				return ok && n == "State"
			})
			if mustPassEdges(g, r.Blk, stateEq) {
				nEl++
				eligibleMap = mu.Map
				notEpic := edgesWhere(g, func(a Atom, holds bool) bool {
					if a.Kind != "bool" || holds {
						return false
					}
					_, n, ok := fieldLoad(a.X)
					return ok && n == "IsEpic"
				})
				c.check(mustPassEdges(g, r.Blk, notEpic), fn, "eligible-task-insert", c.Pos(mu.Pos()), "a task becomes eligible only on State==done|canceled and !IsEpic", "task eligibility is not confined to non-epics")
			} else {
				epicMap = mu.Map
				// epic eligibility: on remaining==0 edge and IsEpic
				zero := edgesWhere(g, func(a Atom, holds bool) bool {
					if a.Kind != "const" || !holds || a.C.Value == nil || a.C.Value.Kind() != constant.Int {
						return false
					}
					v, _ := constant.Int64Val(a.C.Value)
					if v != 0 {
						return false
					}
					_, isLookup := resolve(a.X).(*ssa.Lookup)
					return isLookup
				})
				isEp := edgesWhere(g, func(a Atom, holds bool) bool {
					if a.Kind != "bool" || !holds {
						return false
					}
					_, n, ok := fieldLoad(a.X)
					return ok && n == "IsEpic"
				})
				c.check(mustPassEdges(g, r.Blk, zero) && mustPassEdges(g, r.Blk, isEp), fn, "eligible-epic-insert", c.Pos(mu.Pos()),
					"an epic becomes eligible only on the remainingChildren[id]==0 edge", "epic eligibility is not confined to the edge where no unpruned child remains: an epic that still has a child can be pruned")
			}
		})
	}
	if nEl == 0 {
		c.bad(fn, "eligible-task-insert", c.FnPos(sp), "no eligibility insertion guarded by a State comparison found")
	}
	// counter increment: remaining[task.EpicID]++ for every non-eligible non-epic child: guarded only by !IsEpic, not-eligible lookup, EpicID != ""
	incOK := false
	var isEligibleMap func(v ssa.Value) bool
	isEligibleMap = func(v ssa.Value) bool {
		if eligibleMap == nil {
			return false
		}
		rv := resolve(v)
		if rv == resolve(eligibleMap) {
			return true
		}
		// the set handed back by the helper that fills it (closedTaskIDs())
		if cl, ok := rv.(*ssa.Call); ok {
			if cal := calleeOf(&cl.Call); cal != nil && cal.Blocks != nil && c.InModule(cal) && cal.Signature.Results().Len() == 1 {
				rets := returnsOf(cal)
				for _, r := range rets {
					if resolve(returnedValue(r, 0)) != resolve(eligibleMap) {
						return false
					}
				}
				return len(rets) > 0
			}
		}
		if prm, ok := rv.(*ssa.Parameter); ok {
			args := c.argValues(prm.Parent(), paramIndex(prm))
			if len(args) == 0 {
				return false
			}
			for _, a := range args {
				if !isEligibleMap(a) {
					return false
				}
			}
			return true
		}
		return false
	}
	for _, sp := range c.unitOf(sp) {
		eachInstr(sp, func(r instrRef) {
			mu, ok := r.In.(*ssa.MapUpdate)
			if !ok || mu.Value.Type().String() != "int" {
				return
			}
			if _, n, ok := fieldLoad(mu.Key); !ok || n != "EpicID" {
				return
			}
			// conditions on the path: collect atoms of dominating branch edges
			allowed := true
			for _, bf := range branchFacts(sp) {
				curEnv = bf.A.Env
				if !(bf.E.To() == r.Blk || bf.E.To().Dominates(r.Blk)) || len(bf.E.To().Preds) != 1 {
					continue
				}
				if bf.E.From.Dominates(r.Blk) == false {
					continue
				}
				// only conditions evaluated per item: the branch lies in the same loop as the increment
				if !(reach(bf.E.From, nil, nil)[r.Blk] && reach(r.Blk, nil, nil)[bf.E.From]) {
					continue
				}
				desc := ""
				switch bf.A.Kind {
				case "bool":
					if _, n, ok := fieldLoad(bf.A.X); ok && n == "IsEpic" && !bf.Holds {
						continue
					}
					if ex, ok := strip(bf.A.X).(*ssa.Extract); ok {
						if lk, ok := ex.Tuple.(*ssa.Lookup); ok && isEligibleMap(lk.X) && !bf.Holds {
							continue
						}
						if _, ok := ex.Tuple.(*ssa.Next); ok {
							continue // range loop condition
						}
					}
					desc = c.canon(bf.A.X)
				case "const":
					if _, n, ok := fieldLoad(bf.A.X); ok && n == "EpicID" && constStr(bf.A.C) == "" && !bf.Holds {
						continue
					}
					desc = c.canon(bf.A.X) + "==" + bf.A.C.String()
				default:
					desc = bf.A.Kind
				}
				allowed = false
				_ = desc
			}
			if allowed {
				incOK = true
			}
		})
	}
	c.check(incOK, fn, "remaining-children-counter", c.FnPos(sp), "every non-epic, non-eligible task with an epic increments its epic's remaining-children counter",
		"the remaining-children counter is incremented under extra conditions (or not at all): an epic with a live child can be counted as childless")
	_ = epicMap
	// runPrune: commit guarded by apply and non-empty plan; ids = plan ids; dry-run passes false
	rn := c.Name(rp)
	commit := c.commitFuncs()
	for _, ls := range c.F.LockSites {
		if ls.Fn != rp || ls.Callback == nil {
			continue
		}
		cb := ls.Callback
		for _, call := range callsIn(cb) {
			cal := calleeOf(call.Common())
			if cal == nil || !commit[cal] {
				continue
			}
			applyCanon := ""
			for _, prm := range rp.Params {
				if prm.Type().String() == "bool" {
					applyCanon = c.canon(prm)
				}
			}
			gApply := edgesWhere(cb, func(a Atom, holds bool) bool {
				return a.Kind == "bool" && holds && applyCanon != "" && c.canon(a.X) == applyCanon
			})
			c.check(mustPassEdges(cb, call.Block(), gApply), rn, "commit-behind-apply", c.Pos(call.Pos()), "the commit is dominated by the apply==true edge", "prune can write without --yes: the dry run is not read-only")
			// events derive from buildTombstoneEvents(plan.PrunedIDs) and plan is what is returned
			bte := c.F.Anchors["buildTombstoneEvents"]
			okIDs := false
			// where the tombstone events are built: in the callback, or in the helper that applies the plan
			// (applyPrunePlan(eventsPath, plan, agent) { events := buildTombstoneEvents(plan.PrunedIDs, ...); append })
			bteHost := cb
			if bte != nil && cal != nil && c.InModule(cal) && len(callsTo(cb, bte)) == 0 && len(callsTo(cal, bte)) > 0 {
				bteHost = cal
			}
			if bte != nil && bteHost == cb && len(call.Common().Args) >= 2 && valueFromCallTo(call.Common().Args[1], bte) {
				for _, bc := range callsTo(cb, bte) {
					if _, n, ok := fieldLoad(bc.Common().Args[0]); ok && n == "PrunedIDs" {
						okIDs = true
					}
				}
			}
			if bte != nil && bteHost != cb {
				// inside the helper: the events appended derive from buildTombstoneEvents(<param>.PrunedIDs)
				for _, inner := range callsIn(bteHost) {
					ic := calleeOf(inner.Common())
					if ic == nil || !commit[ic] || len(inner.Common().Args) < 2 || !valueFromCallTo(inner.Common().Args[1], bte) {
						continue
					}
					for _, bc := range callsTo(bteHost, bte) {
						if b, n, ok := fieldLoad(bc.Common().Args[0]); ok && n == "PrunedIDs" {
							if _, isPrm := resolve(b).(*ssa.Parameter); isPrm {
								okIDs = true
							} else if _, isPrm := strip(b).(*ssa.Parameter); isPrm {
								okIDs = true
							} else if al, isAl := strip(b).(*ssa.Alloc); isAl && plainCopyOf(al) != nil {
								okIDs = true
							}
						}
					}
				}
			}
			// ... and plan.PrunedIDs is the WHOLE result of the selection: the childless-epic rule was decided for exactly
			// that set, so ids dropped (or added) afterwards leave an epic in the plan whose child is no longer in it
			if okIDs {
				sel := c.anchor("selectPruneTargets")
				whole, why := true, ""
				nOrig := 0
				for _, bc := range callsTo(bteHost, bte) {
					os, ok := fieldOrigins(bc.Common().Args[0], 0)
					if !ok || len(os) == 0 {
						whole, why = false, "origin of plan.PrunedIDs not followed"
						break
					}
					for _, o := range os {
						var leaves []ssa.Value
						var walk func(v ssa.Value, d int)
						walk = func(v ssa.Value, d int) {
							v = resolve(v)
							if ph, isPhi := v.(*ssa.Phi); isPhi && d < 6 {
								for _, e := range ph.Edges {
									walk(e, d+1)
								}
								return
							}
							leaves = append(leaves, v)
						}
						walk(o.V, 0)
						for _, lv := range leaves {
							nOrig++
							if cl, isCall := lv.(*ssa.Call); isCall && calleeOf(&cl.Call) == sel {
								continue
							}
							if k, isC := lv.(*ssa.Const); isC && k.IsNil() {
								continue
							}
							whole, why = false, c.canon(lv)
						}
					}
				}
				c.check(whole && nOrig > 0, rn, "plan-is-the-selection", c.Pos(call.Pos()), "plan.PrunedIDs is the unmodified result of "+c.Name(sel),
					"plan.PrunedIDs is not the whole result of the selection ("+why+"): ids are dropped or added after the childless-epic rule was applied to the set, so an epic can be pruned while a child of it stays")
			}
			c.check(okIDs, rn, "tombstones-are-the-plan", c.Pos(call.Pos()), "the tombstoned ids are plan.PrunedIDs, the same value that is returned and reported", "the ids written as tombstones are not plan.PrunedIDs: the report and the effect can differ")
		}
	}
	// buildTombstoneEvents: one tombstone per id, unconditionally
	if bte := c.F.Anchors["buildTombstoneEvents"]; bte != nil {
		for _, em := range c.emissions() {
			if em.Fn != bte || !em.has("tombstone") {
				continue
			}
			// in the range loop over ids, no extra branch between loop header and emission
			idOK := false
			if idv := em.Fields["ID"]; idv != nil {
				if u, ok := resolve(idv).(*ssa.UnOp); ok && u.Op == token.MUL {
					if ia, ok := u.X.(*ssa.IndexAddr); ok {
						if _, isParam := resolve(ia.X).(*ssa.Parameter); isParam {
							idOK = true
						}
					}
				}
			}
			cond := false
			for _, bf := range branchFacts(bte) {
				curEnv = bf.A.Env
				if (bf.E.To() == em.Call.Block() || bf.E.To().Dominates(em.Call.Block())) && inCycle(bf.E.From) {
					if bf.A.Kind == "cmp" {
						continue // loop bound
					}
					cond = true
				}
			}
			c.check(idOK && !cond, c.Name(bte), "one-tombstone-per-id", c.Pos(em.Call.Pos()), "one tombstone per planned id, unconditionally", "tombstone emission is conditional or not on the ranged id: part of the reported plan is not applied")
		}
	}
	if dry := c.ErgoFn("RunPrunePlan"); dry != nil {
		okFalse := false
		for _, call := range callsTo(dry, rp) {
			for i, prm := range rp.Params {
				if prm.Type().String() == "bool" {
					if b, ok := constBool(call.Common().Args[i]); ok && !b {
						okFalse = true
					}
				}
			}
		}
		c.check(okFalse, c.Name(dry), "dry-run-passes-false", c.FnPos(dry), "the dry-run entry passes apply=false", "the dry-run entry does not pass the constant false")
	}
}
