package main

// DT9: recursion over relations that a merged or hand-edited log can make cyclic is guarded by a visited set.

import (
	"fmt"
	"go/constant"
	"go/token"
	"go/types"
	"sort"

	"golang.org/x/tools/go/ssa"
)

func init() {
	register(&Rule{ID: "DT9", Min: 1, Run: ruleDT9,
		Doc: "recursion-over-log-relations-is-guarded: replay accepts any link event, so Graph.Deps/RDeps (and every relation derived from task fields) can contain loops in a merged, reordered or hand-edited log even though the writers refuse to create one. Every call that closes a recursive call cycle of the module and passes an argument read out of a map (a key of the relation, an item looked up by id) must carry a visited guard: each call that closes the cycle is reachable only through the `absent` edge of a lookup in a set (a map) that the same function also updates with the same key before that call; a recursion without one does not terminate on such a log (stack overflow: the read is not total). Recursive calls whose arguments are parts of the value the function was handed (children of a tree node) are structural descent: listed and discharged"})
}

// sccs of the module call graph (Tarjan), only components that contain a cycle.
func (c *Ctx) recursiveComponents() [][]*ssa.Function {
	index := map[*ssa.Function]int{}
	low := map[*ssa.Function]int{}
	on := map[*ssa.Function]bool{}
	var stack []*ssa.Function
	var out [][]*ssa.Function
	n := 0
	var strong func(v *ssa.Function)
	strong = func(v *ssa.Function) {
		index[v], low[v] = n, n
		n++
		stack = append(stack, v)
		on[v] = true
		for _, e := range c.F.succ[v] {
			w := e.To
			if w == nil || !c.InModule(w) || w.Blocks == nil || e.Kind == "closure" {
				continue
			}
			if _, ok := index[w]; !ok {
				strong(w)
				if low[w] < low[v] {
					low[v] = low[w]
				}
			} else if on[w] && index[w] < low[v] {
				low[v] = index[w]
			}
		}
		if low[v] == index[v] {
			var comp []*ssa.Function
			for {
				w := stack[len(stack)-1]
				stack = stack[:len(stack)-1]
				on[w] = false
				comp = append(comp, w)
				if w == v {
					break
				}
			}
			cyc := len(comp) > 1
			if !cyc {
				for _, e := range c.F.succ[v] {
					if e.To == v && e.Kind != "closure" {
						cyc = true
					}
				}
			}
			if cyc {
				out = append(out, comp)
			}
		}
	}
	fns := append([]*ssa.Function{}, c.Fns...)
	sort.Slice(fns, func(i, j int) bool { return c.Name(fns[i]) < c.Name(fns[j]) })
	for _, f := range fns {
		if !c.InModule(f) || f.Blocks == nil {
			continue
		}
		if _, ok := index[f]; !ok {
			strong(f)
		}
	}
	return out
}

func ruleDT9(c *Ctx) {
	comps := c.recursiveComponents()
	for _, comp := range comps {
		in := map[*ssa.Function]bool{}
		for _, f := range comp {
			in[f] = true
		}
		sort.Slice(comp, func(i, j int) bool { return c.Name(comp[i]) < c.Name(comp[j]) })
		// every edge that closes the cycle
		for _, f := range comp {
			k := 0
			for _, e := range c.F.succ[f] {
				if !in[e.To] || e.Kind == "closure" || e.Site == nil {
					continue
				}
				k++
				site := e.Site
				construct := fmt.Sprintf("recursive call %s#%d", e.To.Name(), k)
				// what drives the descent: an argument read out of a map (a key of the dependency relation, an id looked
				// up in Tasks) can come back to an item already on the stack; arguments that are parts of the value the
				// function was handed (children of a tree node, elements of a parsed input) cannot
				driven := ""
				if ci, isCall := site.(ssa.CallInstruction); isCall {
					for _, a := range ci.Common().Args {
						if fromMapRead(a) {
							driven = c.canon(a)
						}
					}
				} else {
					driven = "indirect call"
				}
				if driven == "" {
					c.ok(c.Name(f), construct, c.Pos(site.Pos()), "structural descent: no argument of the recursive call is read out of a map")
					continue
				}
				okGuard, why := c.visitedGuard(f, site)
				c.check(okGuard, c.Name(f), construct, c.Pos(site.Pos()), "reached only through the absent edge of a visited-set lookup that is also marked: "+why,
					"recursion over a relation read from the log without a visited guard ("+why+"): a dependency loop in a merged or hand-edited log makes it recurse until the stack overflows")
			}
		}
	}
	if len(comps) == 0 {
		c.ok("<module>", "recursion", "-", "no recursive call cycle in the module")
	}
}

// fromMapRead: v is computed (within its function) from a value read out of a map: a lookup result or a key/value of a
// range over a map.
func fromMapRead(v ssa.Value) bool {
	seen := map[ssa.Value]bool{}
	var walk func(x ssa.Value, d int) bool
	walk = func(x ssa.Value, d int) bool {
		if x == nil || d > 40 || seen[x] {
			return false
		}
		seen[x] = true
		switch y := x.(type) {
		case *ssa.Lookup:
			if isMapType(y.X.Type()) {
				return true
			}
			return walk(y.X, d+1)
		case *ssa.Next:
			if rg, ok := y.Iter.(*ssa.Range); ok {
				if isMapType(rg.X.Type()) {
					return true
				}
				return walk(rg.X, d+1)
			}
			return false
		case *ssa.Parameter, *ssa.Const, *ssa.Global, *ssa.MakeMap, *ssa.MakeSlice, *ssa.Function, *ssa.Builtin:
			return false
		case *ssa.FreeVar:
			if b := bindingOf(y); b != nil {
				return walk(b, d+1)
			}
			return false
		case *ssa.UnOp:
			if y.Op == token.MUL {
				if cell := cellOf(y.X); cell != nil {
					for _, st := range cellStores(cell) {
						if walk(st.Val, d+1) {
							return true
						}
					}
					return false
				}
			}
			return walk(y.X, d+1)
		case *ssa.Alloc:
			for _, st := range cellStores(y) {
				if walk(st.Val, d+1) {
					return true
				}
			}
			return false
		}
		if in, ok := x.(ssa.Instruction); ok {
			for _, op := range in.Operands(nil) {
				if op != nil && *op != nil && walk(*op, d+1) {
					return true
				}
			}
		}
		return false
	}
	return walk(v, 0)
}

func isMapType(t types.Type) bool {
	_, ok := t.Underlying().(*types.Map)
	return ok
}

// visitedGuard: the instruction `site` (a call that closes a recursive cycle) in f is reachable only through the absent
// edge of a lookup in some map that f also updates, with the same key, on the way to the call.
func (c *Ctx) visitedGuard(f *ssa.Function, site ssa.Instruction) (bool, string) {
	var lookups []*ssa.Lookup
	var updates []*ssa.MapUpdate
	eachInstr(f, func(r instrRef) {
		switch x := r.In.(type) {
		case *ssa.Lookup:
			if isMapType(x.X.Type()) {
				lookups = append(lookups, x)
			}
		case *ssa.MapUpdate:
			updates = append(updates, x)
		}
	})
	if len(lookups) == 0 {
		return false, "no set lookup in " + c.Name(f)
	}
	why := "no lookup whose absent edge dominates the call"
	for _, L := range lookups {
		absent := edgesWhere(f, func(a Atom, holds bool) bool {
			x := strip(a.X)
			switch a.Kind {
			case "bool":
				if x == ssa.Value(L) && !L.CommaOk {
					return !holds
				}
				if ex, ok := x.(*ssa.Extract); ok && ex.Tuple == ssa.Value(L) && ex.Index == 1 {
					return !holds
				}
			case "const":
				// colour / counter maps: the zero value means `not seen`
				if x == ssa.Value(L) && !L.CommaOk && a.C != nil && a.C.Value != nil && a.C.Value.Kind() == constant.Int {
					if v, _ := constant.Int64Val(a.C.Value); v == 0 {
						return holds
					}
				}
			}
			return false
		})
		if len(absent) == 0 || !mustPassEdges(f, site.Block(), absent) {
			continue
		}
		why = "the set " + c.canon(L.X) + " is looked up but never marked with the same key before the call"
		for _, U := range updates {
			if resolve(U.Map) != resolve(L.X) && c.canon(U.Map) != c.canon(L.X) {
				continue
			}
			if c.canon(U.Key) != c.canon(L.Index) {
				continue
			}
			if U.Block() == site.Block() && instrIndex(U) < instrIndex(site) || U.Block() != site.Block() && U.Block().Dominates(site.Block()) {
				return true, "set " + c.canon(L.X) + " keyed by " + c.canon(L.Index)
			}
		}
	}
	return false, why
}
