package main

// Validation-dominance rules, part 3: VD8 (epic references), VD9 (result attachments), VD10 (id freshness),
// VD11 (update-key agreement), VD12 (strict decode + validate before commit), VD13 (plan shape).

import (
	"fmt"
	"go/constant"
	"go/token"
	"go/types"
	"sort"
	"strings"

	"golang.org/x/tools/go/ssa"
)

func init() {
	register(&Rule{ID: "VD8", Min: 2, Run: ruleVD8,
		Doc: "epic-ref-validated: every event that stores a caller-supplied epic reference (NewTaskEvent.EpicID of a task, EpicAssignEvent.EpicID) is dominated by a lookup of that value in graph.Tasks of this callback's graph and by a test that the looked-up item is an epic (IsEpic / isEpic), with the ==\"\" bypass; when the emission sits in a helper the guard is looked for in every lock callback on the call chain, or the update map reaching that callback provably lacks the \"epic\" key; for epics the stored EpicID is the constant \"\""})
	register(&Rule{ID: "VD9", Min: 8, Run: ruleVD9,
		Doc: "result-attach-guarded: the \"result\" emission is dominated by !isEpic(task), validateResultSummary==nil and validateResultPath==nil; the stored Path is the cleaned path returned by validateResultPath and the same value is hashed by captureResultEvidence, whose fields fill the evidence; the task is the one loaded or minted in the callback; validateResultPath accepts only after: not absolute, no leading/embedded .., not .ergo, Stat ok, not a directory, Mode().IsRegular(); and an accepted attachment is recorded: no success return of the caller is reachable from its call of the result builder without the builder having succeeded (recorded-or-failed: an error of the builder taken for `nothing to write` accepts, reports and drops the attachment)"})
	register(&Rule{ID: "VD10", Min: 3, Run: ruleVD10,
		Doc: "id-freshness: the id generator returns an id only when it is absent from both collision sets; every call passes the ids of the graph loaded in this callback (or a working set seeded from them and extended after each mint) and that graph's Tombstones"})
	register(&Rule{ID: "VD11", Min: 2, Run: ruleVD11,
		Doc: "updates-key-agreement: the constant keys stored into update maps (TaskInput.ToKeyValueMap, buildFlagUpdates, literal maps in commands) are a subset of the constant keys the set-event builders look up"})
	register(&Rule{ID: "VD12", Min: 6, Run: ruleVD12,
		Doc: "strict-decode-and-validate: in the JSON input parsers the success return is dominated by DisallowUnknownFields() on the decoder that decodes and by a second Decode returning io.EOF; in every command that parses JSON the Validate* nil edge dominates the first committing call"})
	register(&Rule{ID: "VD13", Min: 5, Run: ruleVD13,
		Doc: "plan-shape: the plan callback emits one new_epic and, per input task, one new_task whose State is the constant todo and whose EpicID is the epic event's ID; no claim/state emission; reply ids are the same values as the event ids; titles/bodies are the input strings of that very entry (a loop-carried text is not); a loop of the plan that emits events is left before its last entry only by failing the whole plan (entry-loop-runs-to-the-end)"})
}

// ------------------------------------------------------------------ VD8

// epicGuardOK: in f, is `site` dominated by (Tasks[V] found ∧ looked-up item is an epic), allowing the bypass edges.
func (c *Ctx) epicGuardOK(f *ssa.Function, site *ssa.BasicBlock, vCanon string, bypass map[edge]bool) (bool, string) {
	isEpic := c.F.Anchors["isEpic"]
	found := c.lookupEdges(f, "Tasks", vCanon, true)
	if len(found) == 0 {
		return false, "no graph.Tasks lookup of the epic id"
	}
	// X is the value of a comma-ok lookup Tasks[key] with key == vCanon (possibly inside a guard helper)
	isItem := func(x ssa.Value) bool {
		ex, ok := resolveEnv(x, curEnv).(*ssa.Extract)
		if !ok || ex.Index != 0 {
			return false
		}
		lk, ok := ex.Tuple.(*ssa.Lookup)
		if !ok {
			return false
		}
		if _, n, ok := fieldLoad(lk.X); !ok || n != "Tasks" {
			return false
		}
		return c.canon(lk.Index) == vCanon
	}
	kind := edgesWhere(f, func(a Atom, holds bool) bool {
		if a.Kind != "bool" || !holds {
			return false
		}
		if u, ok := strip(a.X).(*ssa.UnOp); ok {
			if fa, ok := u.X.(*ssa.FieldAddr); ok && fieldName(fa.X.Type(), fa.Field) == "IsEpic" && isItem(fa.X) {
				return true
			}
		}
		if cl, _ := callOf(a.X); cl != nil && calleeOf(&cl.Call) == isEpic && isEpic != nil && isItem(cl.Call.Args[0]) {
			return true
		}
		return false
	})
	if len(kind) == 0 {
		return false, "the looked-up item's kind (IsEpic) is never tested"
	}
	if !mustPassEdges(f, site, unionEdges(found, bypass)) {
		return false, "not dominated by a successful graph.Tasks lookup"
	}
	if !mustPassEdges(f, site, unionEdges(kind, bypass)) {
		return false, "not dominated by the is-an-epic test of the looked-up item"
	}
	return true, ""
}

func (c *Ctx) emptyStringEdges(f *ssa.Function, vCanon string) map[edge]bool {
	return edgesWhere(f, func(a Atom, holds bool) bool {
		return a.Kind == "const" && holds && constStr(a.C) == "" && a.C.Value != nil && a.C.Value.Kind() == constant.String && c.canon(a.X) == vCanon
	})
}

func ruleVD8(c *Ctx) {
	lg := c.F.Anchors["loadGraph"]
	n := 0
	for _, em := range c.emissions() {
		if c.isReplayOrCompact(em.Fn) {
			continue
		}
		f := em.Fn
		fn := c.Name(f)
		pos := c.Pos(em.Call.Pos())
		switch {
		case em.has("new_task") || em.has("new_epic"):
			ev := em.Fields["EpicID"]
			for _, alt := range em.Stores["EpicID"] {
				if _, isConst := resolve(alt).(*ssa.Const); !isConst {
					ev = alt
				}
			}
			if ev == nil {
				continue
			}
			n++
			t := em.Types[len(em.Types)-1]
			construct := em.construct(t) + "|epic-ref"
			if s, ok := constString(ev); ok && s == "" {
				c.ok(fn, construct, pos, "EpicID is the constant \"\"")
				continue
			}
			nsid := c.F.Anchors["newShortID"]
			// an id that is the new epic's on one path and a caller-named epic's on another (a plan that may extend an
			// existing epic): each alternative is judged on the path it arrives over
			if ph, isPhi := strip(ev).(*ssa.Phi); isPhi && ph.Parent() == f {
				okAll, whyNot := true, ""
				for i, e := range ph.Edges {
					if nsid != nil && c.mintedInCallback(e, nsid) {
						continue
					}
					if s, isC := constString(e); isC && s == "" {
						continue
					}
					evc := c.canon(e)
					if ok, why := c.epicGuardOK(f, ph.Block().Preds[i], evc, c.emptyStringEdges(f, evc)); !ok {
						okAll, whyNot = false, evc+" "+why
					}
				}
				c.check(okAll, fn, construct, pos, "EpicID is, on every path, the epic minted in this callback or an id looked up in graph.Tasks and tested to be an epic",
					"a task can be created under "+whyNot+": a task filed under a plain task, an unknown or a pruned id is orphaned")
				continue
			}
			if nsid != nil && valueFromCallTo(ev, nsid) {
				c.ok(fn, construct, pos, "EpicID is the epic id minted in this same callback (plan)")
				continue
			}
			vc := c.canon(ev)
			bypass := c.emptyStringEdges(f, vc)
			// reassignment to "" on some edge (epics): edges dominating a store of "" into the EpicID field
			if em.Lit != nil {
				for _, r := range *em.Lit.Referrers() {
					fa, ok := r.(*ssa.FieldAddr)
					if !ok || fieldName(em.Lit.Type(), fa.Field) != "EpicID" {
						continue
					}
					for _, u := range *fa.Referrers() {
						st, ok := u.(*ssa.Store)
						if !ok || constStr(st.Val) != "" {
							continue
						}
						if s, isC := constString(st.Val); !isC || s != "" {
							continue
						}
						for _, bf := range branchFacts(f) {
							curEnv = bf.A.Env
							if bf.E.To() == st.Block() || bf.E.To().Dominates(st.Block()) {
								if len(bf.E.To().Preds) == 1 {
									// the same condition must also be what skips the guard: accept edges on the same atom
									bypass[bf.E] = true
								}
							}
						}
					}
				}
			}
			// new_epic type edge: emission of an epic stores "" by the reassignment above; the event-type phi ties them
			ok, why := c.epicGuardOK(f, em.Call.Block(), vc, bypass)
			if ok && lg != nil {
				item := c.lookupValue(f, "Tasks", vc)
				if lk, isLk := item.(*ssa.Extract); isLk && item != nil {
					re := c.F.Anchors["replayEvents"]
					if l2, ok2 := lk.Tuple.(*ssa.Lookup); ok2 && !valueFromCallTo(l2.X, lg) && !(re != nil && valueFromCallTo(l2.X, re)) {
						ok, why = false, "the lookup is not on the graph loaded in this callback"
					}
				}
			}
			c.check(ok, fn, construct, pos, "EpicID is looked up in this callback's graph.Tasks and the item is tested to be an epic (bypass: empty / creating an epic)",
				"a task can be created under "+vc+" "+why+": a task filed under a plain task, an unknown or a pruned id is orphaned")
		case em.has("epic"):
			ev := em.Fields["EpicID"]
			if ev == nil {
				continue
			}
			n++
			construct := em.construct("epic") + "|epic-ref"
			// the item being filed under an epic is not itself an epic (epics do not nest: an epic inside an epic is a
			// child that can never be done, so the outer epic never completes and whatever waits on it is stuck)
			if isEpicFn := c.F.Anchors["isEpic"]; isEpicFn != nil {
				notEpic := edgesWhere(f, func(a Atom, holds bool) bool {
					if a.Kind != "bool" || holds {
						return false
					}
					if cl, _ := callOf(a.X); cl != nil && calleeOf(&cl.Call) == isEpicFn {
						return true
					}
					_, nme, ok := fieldLoad(a.X)
					return ok && nme == "IsEpic"
				})
				c.check(len(notEpic) > 0 && mustPassEdgesForall(f, em.Call.Block(), notEpic), fn, em.construct("epic")+"|not-an-epic", pos,
					"an epic assignment is recorded only for an item tested not to be an epic", "an epic can be filed under another epic: the emission is not confined to the !isEpic(item) edge (the nested epic never leaves todo, so the outer epic is never complete and tasks waiting on it are never ready)")
			}
			// local guard?
			vc := c.canon(ev)
			if ok, _ := c.epicGuardOK(f, em.Call.Block(), vc, c.emptyStringEdges(f, vc)); ok {
				c.ok(fn, construct, pos, "epic id validated next to the emission")
				continue
			}
			// the value must come from a lookup of key "epic" in an update map
			key, mapv := lookupKeyOf(ev)
			if key != "epic" || mapv == nil {
				c.bad(fn, construct, pos, "EpicAssignEvent.EpicID is neither validated here nor read from the \"epic\" update key: "+vc)
				continue
			}
			// every lock callback that reaches f must guard, or provably lack the key
			chains := c.callbackChains(f, 4)
			if len(chains) == 0 {
				c.bad(fn, construct, pos, "no lock callback reaches this emission")
				continue
			}
			for _, ch := range chains {
				cb := ch.Callback
				cn := c.Name(cb)
				sub := construct + "@" + cn
				// guard inside the callback on a lookup of "epic" in a map[string]string
				okGuard, why := false, "no validated lookup of the \"epic\" key"
				// guardIn: inside g, are all `sites` dominated by the validation of m["epic"] (m being, after parameter
				// substitution by e, the map handed down the chain)?
				guardIn := func(g *ssa.Function, sites []*ssa.BasicBlock, e env) {
					eachInstr(g, func(r instrRef) {
						lk, ok := r.In.(*ssa.Lookup)
						if !ok {
							return
						}
						if k, ok := constString(lk.Index); !ok || k != "epic" {
							return
						}
						if mt, isMap := lk.X.Type().Underlying().(*types.Map); !isMap || mt.Elem().String() != "string" {
							return
						}
						var val, okv ssa.Value
						if !lk.CommaOk {
							// `epicID := updates["epic"]; epicID != ""`: an absent key reads as "", which the empty-string bypass
							// below already stands for
							val = lk
						} else if lk.Referrers() != nil {
							for _, u := range *lk.Referrers() {
								if ex, ok := u.(*ssa.Extract); ok {
									if ex.Index == 0 {
										val = ex
									} else {
										okv = ex
									}
								}
							}
						}
						if val == nil {
							return
						}
						vcan := c.canon(val)
						bypass := c.emptyStringEdges(g, vcan)
						if okv != nil {
							for e := range edgesWhere(g, func(a Atom, holds bool) bool { return a.Kind == "bool" && !holds && strip(a.X) == okv }) {
								bypass[e] = true
							}
						}
						all, w := len(sites) > 0, ""
						for _, site := range sites {
							if gd, w1 := c.epicGuardOK(g, site, vcan, bypass); !gd {
								all, w = false, w1
							}
						}
						if all {
							// the guarded map is the one handed down the chain
							handed := false
							for _, a := range ch.CallInCallback.Common().Args {
								if c.canon(a) == c.canonEnv(lk.X, e) {
									handed = true
								}
							}
							if handed {
								okGuard = true
							} else {
								why = "the validated map is not the one passed to the builder"
							}
						} else {
							why = w
						}
					})
				}
				guardIn(cb, []*ssa.BasicBlock{ch.CallInCallback.Block()}, nil)
				if !okGuard {
					// the validation may live in a private helper of the callback whose success dominates the builder call
					for _, hc := range callsIn(cb) {
						h := calleeOf(hc.Common())
						hv, isCall := hc.(*ssa.Call)
						if h == nil || !isCall || h.Blocks == nil || !c.InModule(h) || c.opaqueHelper(h) || h == f {
							continue
						}
						res := h.Signature.Results()
						if res.Len() == 0 || res.At(res.Len()-1).Type().String() != "error" {
							continue
						}
						if !mustPassEdges(cb, ch.CallInCallback.Block(), nilErrEdges(cb, hv)) {
							continue
						}
						e := env{}
						for i, prm := range h.Params {
							if i < len(hv.Call.Args) {
								e[prm] = hv.Call.Args[i]
							}
						}
						var sites []*ssa.BasicBlock
						for _, r := range c.nonFailingReturns(h) {
							sites = append(sites, r.Block())
						}
						guardIn(h, sites, e)
						if okGuard {
							break
						}
					}
				}
				if !okGuard {
					// the whole body of the critical section up to the commit may live in a helper the callback calls
					// (planSetUpdates: load, validate, build): the validation then dominates the builder call inside it
					if h := calleeOf(ch.CallInCallback.Common()); h != nil && h != f && h.Blocks != nil && c.InModule(h) {
						e := env{}
						for i, prm := range h.Params {
							if i < len(ch.CallInCallback.Common().Args) {
								e[prm] = ch.CallInCallback.Common().Args[i]
							}
						}
						var sites []*ssa.BasicBlock
						for _, call := range callsIn(h) {
							if cal := calleeOf(call.Common()); cal != nil && c.InModule(cal) && (cal == f || c.reachesWithin(cal, f, 3)) {
								sites = append(sites, call.Block())
							}
						}
						if len(sites) > 0 {
							guardIn(h, sites, e)
						}
					}
				}
				if okGuard {
					c.ok(fn, sub, pos, "callback "+cn+" validates updates[\"epic\"] (found in graph.Tasks, is an epic; bypass empty/absent) before building events")
					continue
				}
				// absence: the map reaching the callback lacks "epic"
				if ok2, w2 := c.chainLacksKey(ch, "epic"); ok2 {
					c.ok(fn, sub, pos, "the update map reaching "+cn+" provably lacks the \"epic\" key ("+w2+")")
					continue
				} else if w2 != "" {
					why += "; " + w2
				}
				c.bad(fn, sub, pos, "callback "+cn+" builds an epic-assignment without validating the epic id ("+why+"): an unknown, pruned or non-epic id is accepted and the task disappears from list views")
			}
		}
	}
	if n == 0 {
		c.bad("<module>", "epic-ref", "-", "no emission storing an epic reference found")
	}
}

// lookupKeyOf: v is (extract #0 of) m[const key]; returns key and map (following a copy-loop alias to its source).
func lookupKeyOf(v ssa.Value) (string, ssa.Value) {
	v = resolve(v)
	var lk *ssa.Lookup
	switch x := v.(type) {
	case *ssa.Lookup:
		lk = x
	case *ssa.Extract:
		lk, _ = x.Tuple.(*ssa.Lookup)
	}
	if lk == nil {
		return "", nil
	}
	k, ok := constString(lk.Index)
	if !ok {
		return "", nil
	}
	return k, lk.X
}

type cbChain struct {
	Callback       *ssa.Function
	CallInCallback ssa.CallInstruction // the call inside the callback that leads to the target
	Path           []*ssa.Function
}

// callbackChains: lock callbacks from which target is reachable through static module calls (depth-limited),
// with the first call inside the callback.
func (c *Ctx) callbackChains(target *ssa.Function, depth int) []cbChain {
	var out []cbChain
	for _, ls := range c.F.LockSites {
		cb := ls.Callback
		if cb == nil {
			continue
		}
		for _, call := range callsIn(cb) {
			cal := calleeOf(call.Common())
			if cal == nil || !c.InModule(cal) {
				continue
			}
			if cal == target || c.reachesWithin(cal, target, depth-1) {
				out = append(out, cbChain{Callback: cb, CallInCallback: call})
			}
		}
	}
	return out
}

func (c *Ctx) reachesWithin(from, target *ssa.Function, depth int) bool {
	if depth < 0 {
		return false
	}
	if from == target {
		return true
	}
	for _, e := range c.F.succ[from] {
		if e.Kind == "call" && c.reachesWithin(e.To, target, depth-1) {
			return true
		}
	}
	return false
}

// chainLacksKey: the map[string]string argument handed down from the callback provably has no `key`:
// at every place the value originates it is nil, or a map on which delete(m,key) dominates the hand-over.
func (c *Ctx) chainLacksKey(ch cbChain, key string) (bool, string) {
	var mapArg ssa.Value
	for _, a := range ch.CallInCallback.Common().Args {
		if mt, ok := a.Type().Underlying().(*types.Map); ok && mt.Key().String() == "string" && mt.Elem().String() == "string" {
			mapArg = a
		}
	}
	if mapArg == nil {
		return false, "no update map argument"
	}
	type item struct {
		v  ssa.Value
		at ssa.Instruction
		d  int
	}
	work := []item{{mapArg, ch.CallInCallback, 0}}
	seen := map[ssa.Value]bool{}
	nOK := 0
	for len(work) > 0 {
		it := work[0]
		work = work[1:]
		v := resolve(it.v)
		if seen[v] && it.d > 0 {
			continue
		}
		seen[v] = true
		if it.d > 6 {
			return false, "origin of the update map too deep"
		}
		switch x := v.(type) {
		case *ssa.Const:
			if x.IsNil() {
				nOK++
				continue
			}
			return false, "unexpected constant map"
		case *ssa.Phi:
			for i, e := range x.Edges {
				pred := x.Block().Preds[i]
				work = append(work, item{e, pred.Instrs[len(pred.Instrs)-1], it.d + 1})
			}
		case *ssa.Parameter:
			fnc := x.Parent()
			sites := c.callers[fnc]
			if len(sites) == 0 {
				return false, "update map parameter of " + c.Name(fnc) + " has no static caller"
			}
			for _, cs := range sites {
				work = append(work, item{cs.Call.Common().Args[paramIndex(x)], cs.Call, it.d + 1})
			}
		case *ssa.Call, *ssa.MakeMap, *ssa.Extract:
			// a map value created here: delete(m,key) must dominate the hand-over and no later store of key
			del := false
			vin := v.(ssa.Instruction)
			retIdx := 0
			var tupleCall *ssa.Call
			if ex, isEx := v.(*ssa.Extract); isEx {
				tc, isCall := ex.Tuple.(*ssa.Call)
				if !isCall {
					return false, "update map origin not understood: " + c.canon(v)
				}
				tupleCall, retIdx = tc, ex.Index
			}
			// the key removed by a helper handed the map (takeCreateFields(updates)): a call, dominating the hand-over, of
			// a module function that deletes the key from that parameter on every path
			for _, hc := range callsIn(vin.Parent()) {
				h := calleeOf(hc.Common())
				if h == nil || !c.InModule(h) || h.Blocks == nil {
					continue
				}
				if !(instrDominates(hc, it.at) || (hc.Block() == it.at.Block() && instrIndex(hc) < instrIndex(it.at))) {
					continue
				}
				for pi, a := range hc.Common().Args {
					if resolve(a) != v || pi >= len(h.Params) {
						continue
					}
					for _, dc := range callsNamed(h, "builtin delete") {
						da := dc.Common().Args
						if k, ok := constString(da[1]); !ok || k != key || resolve(da[0]) != ssa.Value(h.Params[pi]) {
							continue
						}
						all := true
						for _, hr := range returnsOf(h) {
							if !(dc.Block().Dominates(hr.Block())) {
								all = false
							}
						}
						if all {
							del = true
						}
					}
				}
			}
			for _, call := range callsNamed(vin.Parent(), "builtin delete") {
				a := call.Common().Args
				if resolve(a[0]) == v {
					if k, ok := constString(a[1]); ok && k == key && (instrDominates(call, it.at) || (call.Block() == it.at.Block() && instrIndex(call) < instrIndex(it.at))) {
						del = true
						// no MapUpdate of key after the delete
						eachInstr(vin.Parent(), func(r instrRef) {
							if mu, ok := r.In.(*ssa.MapUpdate); ok && resolve(mu.Map) == v {
								if k2, ok := constString(mu.Key); (!ok || k2 == key) && canReachInstr(call, mu) {
									del = false
								}
							}
						})
					}
				}
			}
			if !del {
				// a module constructor (newTaskFlagUpdates): the key may be removed inside it, before each return
				cl, isCall := v.(*ssa.Call)
				if tupleCall != nil {
					cl, isCall = tupleCall, true
				}
				if isCall {
					if cal := calleeOf(&cl.Call); cal != nil && cal.Blocks != nil && c.InModule(cal) && retIdx < cal.Signature.Results().Len() {
						for _, r := range c.nonFailingReturns(cal) {
							if retIdx >= len(r.Results) {
								continue
							}
							rv := returnedValue(r, retIdx)
							// the helper hands back its own parameter after removing the key from it (takeCreateFields)
							if p, isP := resolve(rv).(*ssa.Parameter); isP && p.Parent() == cal {
								removed := false
								for _, dc := range callsNamed(cal, "builtin delete") {
									da := dc.Common().Args
									if k, ok := constString(da[1]); ok && k == key && resolve(da[0]) == ssa.Value(p) && (dc.Block().Dominates(r.Block())) {
										removed = true
									}
								}
								if removed {
									nOK++
									continue
								}
							}
							work = append(work, item{rv, r, it.d + 1})
						}
						continue
					}
					// an interface method (fieldSource.updates()): every implementation in the module
					if cl.Call.IsInvoke() {
						n := 0
						for _, m := range c.Fns {
							if m.Signature.Recv() == nil || m.Name() != cl.Call.Method.Name() || m.Blocks == nil || !c.InModule(m) {
								continue
							}
							if !types.Identical(m.Signature.Results(), cl.Call.Method.Type().(*types.Signature).Results()) {
								continue
							}
							n++
							for _, r := range c.nonFailingReturns(m) {
								if retIdx < len(r.Results) {
									work = append(work, item{returnedValue(r, retIdx), r, it.d + 1})
								}
							}
						}
						if n > 0 {
							continue
						}
					}
				}
				return false, fmt.Sprintf("map created at %s reaches the callback without delete(m,%q)", c.Pos(vin.Pos()), key)
			}
			nOK++
		default:
			// a field of a parameter struct / local struct: every value stored into that field
			if os, ok := fieldOrigins(v, 0); ok {
				if len(os) == 0 {
					nOK++ // only ever the zero value: a nil map
					continue
				}
				for _, o := range os {
					work = append(work, item{o.V, o.At, it.d + 1})
				}
				continue
			}
			return false, "update map origin not understood: " + c.canon(v)
		}
	}
	return nOK > 0, fmt.Sprintf("%d origin(s): nil or delete(m,%q) before the call", nOK, key)
}

// ------------------------------------------------------------------ VD9

func ruleVD9(c *Ctx) {
	c.resultPathIsUTF8()
	isEpic, vrs, vrp, cre := c.anchor("isEpic"), c.anchor("validateResultSummary"), c.anchor("validateResultPath"), c.anchor("captureResultEvidence")
	if isEpic == nil || vrs == nil || vrp == nil || cre == nil {
		return
	}
	n := 0
	for _, em := range c.emissions() {
		if !em.has("result") || c.isReplayOrCompact(em.Fn) {
			continue
		}
		n++
		f := em.Fn
		fn := c.Name(f)
		construct := em.construct("result")
		pos := c.Pos(em.Call.Pos())
		blk := em.Call.Block()
		c.check(mustPassEdges(f, blk, guardBool(f, isEpic, false, nil)), fn, construct+"|not-epic", pos, "dominated by !isEpic(task)", "a result can be attached to an epic")
		// an accepted attachment is recorded: whoever asks the builder for the event either gets it (and goes on with it)
		// or fails - a caller that turns one of the builder's errors into "nothing to write" reports success for an
		// attachment that is not in the log
		if f.Signature.Results().Len() >= 1 && f.Signature.Results().At(f.Signature.Results().Len()-1).Type().String() == "error" {
			for i, cs := range c.callers[f] {
				cv, isCall := cs.Call.(*ssa.Call)
				if !isCall {
					continue
				}
				g := cs.Fn
				removed := nilErrEdges(g, cv)
				swallowed := ""
				for b := range reach(cv.Block(), removed, nil) {
					if len(b.Instrs) == 0 || (b == cv.Block() && len(removed) > 0 && false) {
						continue
					}
					if r, ok := b.Instrs[len(b.Instrs)-1].(*ssa.Return); ok && b.Comment != "recover" && !c.definitelyFails(g, r) {
						if b == cv.Block() {
							continue
						}
						swallowed = c.Pos(r.Pos())
					}
				}
				if len(removed) == 0 {
					continue // the error is handed on as it is (return build(...))
				}
				c.check(swallowed == "", c.Name(g), fmt.Sprintf("%s|recorded-or-failed#%d", construct, i+1), c.Pos(cv.Pos()),
					"the caller goes on to success only with the event the builder handed back",
					"a success return ("+swallowed+") is reachable from this call without the builder having succeeded: one of its errors is taken for `nothing to write`, so the command accepts the attachment, reports it and records nothing")
			}
		}
		c.check(mustPassEdges(f, blk, guardNil(f, vrs, nil)), fn, construct+"|summary", pos, "dominated by validateResultSummary==nil", "result summary is not validated")
		gPath := guardNil(f, vrp, nil)
		c.check(mustPassEdges(f, blk, gPath), fn, construct+"|path", pos, "dominated by validateResultPath==nil", "result path is not validated: a path outside the project, inside .ergo, a directory or a FIFO can be recorded")
		// stored Path is the cleaned path returned by validateResultPath
		pv := em.Fields["Path"]
		pc, pi := callOf(pv)
		okClean := pc != nil && calleeOf(&pc.Call) == vrp && pi == 0
		c.check(okClean, fn, construct+"|clean-path-stored", pos, "Path is the cleaned path returned by validateResultPath", "the stored Path is not validateResultPath's returned (cleaned) path: the raw caller string is recorded")
		// evidence: captureResultEvidence(repoDir, same cleaned path), same repoDir as validate
		var ev *ssa.Call
		for _, call := range callsTo(f, cre) {
			if cv, ok := call.(*ssa.Call); ok {
				ev = cv
			}
		}
		okEv := ev != nil && pv != nil && len(ev.Call.Args) == 2 && c.canon(ev.Call.Args[1]) == c.canon(pv) && pc != nil && c.canon(ev.Call.Args[0]) == c.canon(pc.Call.Args[0])
		c.check(okEv, fn, construct+"|evidence-of-same-file", pos, "captureResultEvidence hashes the same (repoDir, cleaned path) that was validated and stored", "the evidence is computed for a different path than the one validated/stored")
		okFields := true
		for _, fl := range []string{"Sha256AtAttach", "MtimeAtAttach", "GitCommitAtAttach"} {
			b, nme, ok := fieldLoad(resolve(em.Fields[fl]))
			if !ok || nme != fl || ev == nil || !valueFromCallTo(em.Fields[fl], cre) || !onlyFromCallTo(b, cre, 0) {
				okFields = false
			}
		}
		c.check(okFields, fn, construct+"|evidence-fields", pos, "sha256/mtime/git fields are the fields of captureResultEvidence's result on every path", "an evidence field of the event can come from somewhere other than captureResultEvidence's result for this attach (cached/reused evidence): the recorded sha256 need not be the hash of the file's content at that moment")
		// task id and provenance
		if tid := em.Fields["TaskID"]; tid != nil {
			if b, nme, ok := fieldLoad(resolve(tid)); ok && nme == "ID" {
				c.checkTaskProvenance(f, b, fn, construct+"|task-origin", pos)
			} else {
				c.bad(fn, construct+"|task-origin", pos, "TaskID is not the ID of the validated task value")
			}
		}
	}
	if n == 0 {
		c.bad("<module>", "emit \"result\"#0", "-", "no command-side result emission found")
	}
	// validateResultPath internals
	fn := c.Name(vrp)
	var acc *ssa.Return
	for _, r := range successReturns(vrp) {
		acc = r
	}
	if acc == nil {
		c.bad(fn, "accepting-return", c.FnPos(vrp), "no accepting return")
		return
	}
	blk := acc.Block()
	boolCall := func(name string, want bool, argPred func([]ssa.Value, env) bool) map[edge]bool {
		return edgesWhere(vrp, func(a Atom, holds bool) bool {
			if a.Kind != "bool" || holds != want {
				return false
			}
			cl, _ := callOf(a.X)
			if cl == nil || calleeFullName(&cl.Call) != name {
				return false
			}
			return argPred == nil || argPred(cl.Call.Args, a.Env)
		})
	}
	// returned path is filepath.Clean(param) and all checks use it (checks may live in private helpers: their
	// parameters are read through the call's arguments)
	rv := resolve(acc.Results[0])
	cleanOK := false
	var cleaned ssa.Value
	if cl, _ := callOf(rv); cl != nil && calleeFullName(&cl.Call) == "path/filepath.Clean" {
		if _, ok := resolve(cl.Call.Args[0]).(*ssa.Parameter); ok {
			cleanOK = true
			cleaned = cl
		}
	}
	c.check(cleanOK, fn, "returns-cleaned", c.Pos(acc.Pos()), "returns filepath.Clean(relPath)", "does not return filepath.Clean of its argument")
	isCleaned := func(v ssa.Value, e env) bool {
		return cleaned != nil && (strip(v) == cleaned || strip(resolveEnv(v, e)) == cleaned || resolve(resolveEnv(v, e)) == cleaned)
	}
	onClean := func(a []ssa.Value, e env) bool { return len(a) > 0 && isCleaned(a[0], e) }
	type req struct {
		key   string
		edges map[edge]bool
		bad   string
	}
	dotdot := func(a []ssa.Value, e env) bool {
		return onClean(a, e) && len(a) > 1 && strings.HasSuffix(c.canon(a[1]), `.."`)
	}
	ergoPrefix := func(a []ssa.Value, e env) bool {
		return onClean(a, e) && len(a) > 1 && strings.Contains(c.canon(a[1]), ".ergo")
	}
	eqErgo := edgesWhere(vrp, func(a Atom, holds bool) bool {
		return a.Kind == "const" && !holds && constStr(a.C) == ".ergo" && isCleaned(a.X, a.Env)
	})
	joinedOK := false
	statOK := edgesWhere(vrp, func(a Atom, holds bool) bool {
		if a.Kind != "nil" || !holds {
			return false
		}
		cl, _ := callOf(a.X)
		if cl == nil {
			return false
		}
		if n := calleeFullName(&cl.Call); n != "os.Stat" && n != "os.Lstat" {
			return false
		}
		if j, _ := callOf(resolveEnv(cl.Call.Args[0], a.Env)); j != nil && calleeFullName(&j.Call) == "path/filepath.Join" {
			el := variadicElems(j.Call.Args)
			if len(el) == 2 && isCleaned(el[1], a.Env) {
				if _, isParam := resolve(resolveEnv(el[0], a.Env)).(*ssa.Parameter); isParam {
					joinedOK = true
				}
			}
		}
		return true
	})
	invoke := func(method string, want bool) map[edge]bool {
		return edgesWhere(vrp, func(a Atom, holds bool) bool {
			if a.Kind != "bool" || holds != want {
				return false
			}
			cl, _ := callOf(a.X)
			if cl == nil {
				return false
			}
			n := calleeFullName(&cl.Call)
			return n == "invoke io/fs.FileInfo."+method || n == "(io/fs.FileMode)."+method || strings.HasSuffix(n, "."+method)
		})
	}
	reqs := []req{
		{"not-absolute", boolCall("path/filepath.IsAbs", false, onClean), "an absolute path is accepted"},
		{"no-leading-dotdot", boolCall("strings.HasPrefix", false, dotdot), "a path starting with .. is accepted"},
		{"no-embedded-dotdot", boolCall("strings.Contains", false, dotdot), "a path containing /.. is accepted"},
		{"not-ergo-prefix", boolCall("strings.HasPrefix", false, ergoPrefix), "a path inside .ergo/ is accepted"},
		{"not-ergo-dir", eqErgo, "the .ergo directory itself is accepted"},
		{"exists", statOK, "a missing file is accepted"},
		{"not-directory", invoke("IsDir", false), "a directory is accepted"},
		{"regular-file", invoke("IsRegular", true), "a FIFO/device/socket is accepted and reading it blocks forever while the lock is held"},
	}
	for _, r := range reqs {
		c.check(len(r.edges) > 0 && mustPassEdges(vrp, blk, r.edges), fn, "accept|"+r.key, c.Pos(acc.Pos()), "accepting return dominated by the "+r.key+" check on the cleaned path", r.bad)
	}
	c.check(joinedOK, fn, "accept|stat-of-joined", c.Pos(acc.Pos()), "existence is checked on filepath.Join(repoDir, cleaned)", "the existence check is not on filepath.Join(repoDir, cleaned path)")
}

// ------------------------------------------------------------------ VD10

// mapUpdatesOf: every m[k] = v in the module whose map operand is (resolves to) the map value mm, including updates
// made through a context-struct field or a helper parameter that holds it.
func (c *Ctx) mapUpdatesOf(mm ssa.Value) []*ssa.MapUpdate {
	if c.mapUpd == nil {
		c.mapUpd = map[ssa.Value][]*ssa.MapUpdate{}
		for _, fn := range c.Fns {
			eachInstr(fn, func(r instrRef) {
				if mu, ok := r.In.(*ssa.MapUpdate); ok {
					m := resolve(mu.Map)
					if prm, isPrm := m.(*ssa.Parameter); isPrm {
						if args := c.argValues(prm.Parent(), paramIndex(prm)); len(args) == 1 {
							m = resolve(args[0])
						}
					}
					c.mapUpd[m] = append(c.mapUpd[m], mu)
				}
			})
		}
	}
	return c.mapUpd[resolve(mm)]
}

func ruleVD10(c *Ctx) {
	ns := c.anchor("newShortID")
	if ns == nil {
		return
	}
	fn := c.Name(ns)
	// inside: success return dominated by negative lookups in every map parameter
	var mapParams []*ssa.Parameter
	for _, prm := range ns.Params {
		if _, ok := prm.Type().Underlying().(*types.Map); ok {
			mapParams = append(mapParams, prm)
		}
	}
	var acc []*ssa.Return
	for _, r := range successReturns(ns) {
		acc = append(acc, r)
	}
	for i, prm := range mapParams {
		neg := edgesWhere(ns, func(a Atom, holds bool) bool {
			if a.Kind != "bool" || holds {
				return false
			}
			ex, ok := strip(a.X).(*ssa.Extract)
			if !ok || ex.Index != 1 {
				return false
			}
			lk, ok := ex.Tuple.(*ssa.Lookup)
			return ok && (resolve(lk.X) == ssa.Value(prm) || resolveEnv(lk.X, a.Env) == ssa.Value(prm))
		})
		ok := len(acc) > 0
		for _, r := range acc {
			if !mustPassEdges(ns, r.Block(), neg) {
				ok = false
			}
		}
		c.check(ok, fn, fmt.Sprintf("fresh-against-param#%d", i), c.FnPos(ns), "an id is returned only when absent from "+prm.Name(), "an id present in "+prm.Name()+" can be returned")
	}
	hasTomb := false
	for _, prm := range mapParams {
		if strings.Contains(prm.Type().String(), "TombstoneInfo") {
			hasTomb = true
		}
	}
	c.check(hasTomb, fn, "tombstones-consulted", c.FnPos(ns), "the generator takes the tombstone set", "the generator has no tombstone parameter: a pruned id can be issued again, and replay then ignores the new item's create event (acknowledged create lost)")
	// call sites
	lg, re := c.F.Anchors["loadGraph"], c.F.Anchors["replayEvents"]
	fromLoaded := func(v ssa.Value) bool {
		return (lg != nil && valueFromCallTo(v, lg)) || (re != nil && valueFromCallTo(v, re))
	}
	for i, cs := range c.callers[ns] {
		cn := c.Name(cs.Fn)
		construct := fmt.Sprintf("call newShortID#%d", i+1)
		pos := c.Pos(cs.Call.Pos())
		args := cs.Call.Common().Args
		okAll := true
		why := ""
		for j, prm := range ns.Params {
			if _, isMap := prm.Type().Underlying().(*types.Map); !isMap {
				continue
			}
			a := resolve(args[j])
			want := "Tasks"
			if strings.Contains(prm.Type().String(), "TombstoneInfo") {
				want = "Tombstones"
			}
			if _, nme, ok := fieldLoad(a); ok && nme == want && fromLoaded(a) {
				continue
			}
			if mm, ok := a.(*ssa.MakeMap); ok && want == "Tasks" {
				// working set: seeded by a range over loaded graph.Tasks, extended with each minted id
				seeded, extended := false, false
				for _, mu := range c.mapUpdatesOf(mm) {
					if ex, ok := mu.Key.(*ssa.Extract); ok {
						if nx, ok := ex.Tuple.(*ssa.Next); ok {
							if rg, ok := nx.Iter.(*ssa.Range); ok {
								if _, nme, ok := fieldLoad(rg.X); ok && nme == "Tasks" && fromLoaded(rg.X) {
									seeded = true
								}
							}
						}
					}
					if cl, idx := callOf(mu.Key); cl == cs.Call.(*ssa.Call) && idx == 0 {
						extended = true
					}
				}
				// ... or seeded with the library's copy: maps.Copy(working, graph.Tasks)
				if mm.Referrers() != nil {
					for _, r := range *mm.Referrers() {
						if call, ok := r.(ssa.CallInstruction); ok && calleeFullName(call.Common()) == "maps.Copy" && len(call.Common().Args) == 2 && call.Common().Args[0] == ssa.Value(mm) {
							if _, nme, ok := fieldLoad(call.Common().Args[1]); ok && nme == "Tasks" && fromLoaded(call.Common().Args[1]) {
								seeded = true
							}
						}
					}
				}
				if seeded && extended {
					continue
				}
				why = fmt.Sprintf("working id set seeded=%v extendedAfterMint=%v", seeded, extended)
			} else {
				why = "argument " + c.canon(a) + " is not this callback's graph." + want
			}
			okAll = false
		}
		c.check(okAll, cn, construct, pos, "collision sets are the loaded graph's ids (extended by ids minted in this command) and its tombstones", why+": a duplicate or pruned id can be issued")
	}
	// what a creating command records as the new item's id is a minted id; an id from anywhere else (a caller-chosen
	// --id, an imported one) must have been looked up, and found absent, in the live ids AND in the tombstones
	for _, em := range c.emissions() {
		if !(em.has("new_task") || em.has("new_epic")) || c.isReplayOrCompact(em.Fn) {
			continue
		}
		idv := em.Fields["ID"]
		if idv == nil {
			continue
		}
		f := em.Fn
		t := em.Types[len(em.Types)-1]
		type leaf struct {
			v    ssa.Value
			at   *ssa.BasicBlock
			into *ssa.BasicBlock // the block of the phi this value enters over the edge at->into, nil for a direct use
		}
		var leaves []leaf
		seenL := map[ssa.Value]bool{}
		var expand func(v ssa.Value, at *ssa.BasicBlock, d int)
		expand = func(v ssa.Value, at *ssa.BasicBlock, d int) {
			v = strip(v)
			if seenL[v] || d > 6 {
				return
			}
			seenL[v] = true
			if ph, ok := v.(*ssa.Phi); ok {
				for i, e := range ph.Edges {
					if _, inner := strip(e).(*ssa.Phi); inner {
						expand(e, ph.Block().Preds[i], d+1)
						continue
					}
					if !seenL[strip(e)] {
						seenL[strip(e)] = true
						leaves = append(leaves, leaf{strip(e), ph.Block().Preds[i], ph.Block()})
					}
				}
				return
			}
			leaves = append(leaves, leaf{v, at, nil})
		}
		expand(idv, em.Call.Block(), 0)
		bad := ""
		for _, lf := range leaves {
			if c.mintedInCallback(lf.v, ns) {
				continue
			}
			if lf.v.Parent() != f {
				bad = "the id (" + c.canon(lf.v) + ") does not come from the id generator and its origin is outside this function"
				break
			}
			for _, want := range []string{"Tasks", "Tombstones"} {
				neg := edgesWhere(f, func(a Atom, holds bool) bool {
					var lk *ssa.Lookup
					switch {
					case a.Kind == "bool" && !holds:
						if ex, ok := strip(a.X).(*ssa.Extract); ok && ex.Index == 1 {
							lk, _ = ex.Tuple.(*ssa.Lookup)
						}
					case a.Kind == "nil" && holds:
						lk, _ = strip(a.X).(*ssa.Lookup)
					}
					if lk == nil || len(a.Env) > 0 {
						return false
					}
					if _, nme, ok := fieldLoad(resolve(lk.X)); !ok || nme != want || !fromLoaded(resolve(lk.X)) {
						return false
					}
					return strip(lk.Index) == lf.v || c.canon(lk.Index) == c.canon(lf.v)
				})
				viaEdge := false
				for e := range neg {
					if lf.into != nil && e.From == lf.at && e.To() == lf.into {
						viaEdge = true
					}
				}
				if len(neg) == 0 || !(viaEdge || mustPassEdges(f, lf.at, neg)) {
					bad = "the id can be " + c.canon(lf.v) + ", which does not come from the id generator and is not known to be absent from graph." + want
					if want == "Tombstones" {
						bad += ": a pruned id can be issued again, and replay ignores every event of a tombstoned id - the acknowledged create is lost"
					}
					break
				}
			}
			if bad != "" {
				break
			}
		}
		c.check(bad == "", c.Name(f), em.construct(t)+"|id-is-fresh", c.Pos(em.Call.Pos()), "the recorded id is minted by the generator (or checked absent from live ids and tombstones)", bad)
	}
	// a command that mints several ids: each one is in the next mint's collision set before that mint runs. An id
	// allocator (a function or method that draws an id from the generator and hands it back) counts as a mint at its
	// own call sites; when it remembers what it issued (`issued[id] = struct{}{}` behind a negative lookup, in a set
	// that lives as long as the allocator object) two draws from the same object cannot collide.
	wrappers := c.mintWrappers(ns)
	liveArg := func(m *ssa.Call) ssa.Value {
		callee := calleeOf(&m.Call)
		if w := wrappers[callee]; w != nil {
			if w.LiveParam >= 0 && w.LiveParam < len(m.Call.Args) {
				return m.Call.Args[w.LiveParam]
			}
			return nil
		}
		for k, prm := range ns.Params {
			if _, isMap := prm.Type().Underlying().(*types.Map); isMap && !strings.Contains(prm.Type().String(), "TombstoneInfo") && k < len(m.Call.Args) {
				return m.Call.Args[k]
			}
		}
		return nil
	}
	byFn := map[*ssa.Function][]*ssa.Call{}
	var fnOrder []*ssa.Function
	addSite := func(cs callSite) {
		if cv, ok := cs.Call.(*ssa.Call); ok {
			if byFn[cs.Fn] == nil {
				fnOrder = append(fnOrder, cs.Fn)
			}
			byFn[cs.Fn] = append(byFn[cs.Fn], cv)
		}
	}
	for _, cs := range c.callers[ns] {
		addSite(cs)
	}
	var wOrder []*ssa.Function
	for w := range wrappers {
		wOrder = append(wOrder, w)
	}
	sort.Slice(wOrder, func(i, j int) bool { return c.Name(wOrder[i]) < c.Name(wOrder[j]) })
	for _, w := range wOrder {
		for _, cs := range c.callers[w] {
			addSite(cs)
		}
	}
	for _, f := range fnOrder {
		mints := byFn[f]
		for i, m := range mints {
			for j, m2 := range mints {
				// is m2 executed after m on some path?
				after := false
				if m == m2 {
					after = reachesSelf(m.Block())
				} else if m.Block() == m2.Block() {
					after = instrIndex(m) < instrIndex(m2) || reachesSelf(m.Block())
				} else {
					after = reach(m.Block(), nil, nil)[m2.Block()]
				}
				if !after {
					continue
				}
				construct := fmt.Sprintf("minted-id-excluded mint#%d->mint#%d", i+1, j+1)
				// inside an allocator: coming round again means the id just drawn was turned down (it goes nowhere but
				// into the lookup, the remembered set and the return)
				if w := wrappers[f]; w != nil && m == m2 && m == w.Mint && w.OnlyReturned {
					c.ok(c.Name(f), construct, c.Pos(m2.Pos()), "the allocator's retry loop discards the id it turned down; an id leaves only through the return")
					continue
				}
				// two draws from one remembering allocator object
				w1, w2 := wrappers[calleeOf(&m.Call)], wrappers[calleeOf(&m2.Call)]
				if w1 != nil && w1 == w2 && w1.SelfExcl {
					same, why := c.sameAllocatorObject(f, m, m2, w1)
					c.check(same, c.Name(f), construct, c.Pos(m2.Pos()),
						"both ids are drawn from the same allocator object, which records every id it issues ("+w1.Why+") and turns down a recorded one",
						"the ids are drawn through "+c.Name(w1.Fn)+", which records what it issued, but "+why+": the same command can issue one id twice")
					continue
				}
				// the live-id set handed to m2
				set := liveArg(m2)
				if set == nil {
					if w2 != nil {
						c.bad(c.Name(f), construct, c.Pos(m2.Pos()), "the id minted at "+c.Pos(m.Pos())+" is not excluded when "+c.Name(w2.Fn)+" draws the next one ("+w2.Why+"): the same command can issue one id twice (an epic and its task, two tasks of one plan)")
					}
					continue
				}
				var ublocks = map[*ssa.BasicBlock]bool{}
				sameBlockAfter := false
				eachInstr(f, func(r instrRef) {
					mu, ok := r.In.(*ssa.MapUpdate)
					if !ok {
						return
					}
					if resolve(mu.Map) != resolve(set) && c.canon(mu.Map) != c.canon(set) {
						return
					}
					if cl, idx := callOf(resolve(mu.Key)); cl != m || idx > 0 {
						return
					}
					if mu.Block() == m.Block() && instrIndex(mu) > instrIndex(m) {
						sameBlockAfter = true
					}
					ublocks[mu.Block()] = true
				})
				okRec := sameBlockAfter
				if !okRec && len(ublocks) > 0 {
					okRec = true
					if m.Block() == m2.Block() {
						for _, sb := range m.Block().Succs {
							if !ublocks[sb] && reach(sb, nil, ublocks)[m.Block()] {
								okRec = false
							}
						}
					} else if reach(m.Block(), nil, ublocks)[m2.Block()] {
						okRec = false
					}
				}
				c.check(okRec, c.Name(f), construct, c.Pos(m2.Pos()),
					"the id minted at "+c.Pos(m.Pos())+" is entered into this mint's collision set on every path between the two",
					"the id minted at "+c.Pos(m.Pos())+" is not in the collision set ("+c.canon(set)+") when this id is drawn: the same command can issue one id twice (an epic and its task, two tasks of one plan)")
			}
		}
	}
}

// mintWrapper: an id allocator - a named function that draws an id from the generator (one call site) and returns it.
type mintWrapper struct {
	Fn           *ssa.Function
	Mint         *ssa.Call
	LiveParam    int    // the wrapper's parameter handed on as the generator's live-id set, -1 if none
	OnlyReturned bool   // the drawn id is used for nothing but lookups, set insertions and the return
	SelfExcl     bool   // every issued id is recorded in a set that outlives the call and a recorded id is turned down
	ObjParam     int    // the parameter (receiver) holding that set
	ObjField     string // the field of the receiver, "" when the parameter is the set itself
	Why          string
}

func (c *Ctx) mintWrappers(ns *ssa.Function) map[*ssa.Function]*mintWrapper {
	out := map[*ssa.Function]*mintWrapper{}
	perFn := map[*ssa.Function][]*ssa.Call{}
	for _, cs := range c.callers[ns] {
		if cv, ok := cs.Call.(*ssa.Call); ok {
			perFn[cs.Fn] = append(perFn[cs.Fn], cv)
		}
	}
	for w, calls := range perFn {
		if len(calls) != 1 || w.Parent() != nil || w == ns || w.Signature.Results().Len() == 0 || w.Signature.Results().At(0).Type().Underlying().String() != "string" {
			continue
		}
		m := calls[0]
		hands := false
		okRets := true
		var succ []*ssa.Return
		for _, r := range returnsOf(w) {
			if r.Block().Comment == "recover" || len(r.Results) == 0 {
				continue
			}
			if failureConvention(r, 0) {
				continue
			}
			if derivesFrom(returnedValue(r, 0), m) {
				hands = true
				succ = append(succ, r)
				continue
			}
			okRets = false
		}
		if !hands || !okRets {
			continue
		}
		mw := &mintWrapper{Fn: w, Mint: m, LiveParam: -1, ObjParam: -1}
		for k, prm := range ns.Params {
			if _, isMap := prm.Type().Underlying().(*types.Map); isMap && !strings.Contains(prm.Type().String(), "TombstoneInfo") && k < len(m.Call.Args) {
				if p, ok := resolve(m.Call.Args[k]).(*ssa.Parameter); ok && p.Parent() == w {
					mw.LiveParam = paramIndex(p)
				}
			}
		}
		// what becomes of the id
		mw.OnlyReturned = true
		var idVals []ssa.Value
		if m.Referrers() != nil {
			for _, r := range *m.Referrers() {
				if ex, ok := r.(*ssa.Extract); ok && ex.Index == 0 {
					idVals = append(idVals, ex)
				}
			}
		}
		if len(idVals) == 0 {
			idVals = []ssa.Value{m}
		}
		seen := map[ssa.Value]bool{}
		var uses func(v ssa.Value)
		uses = func(v ssa.Value) {
			if seen[v] || v.Referrers() == nil {
				return
			}
			seen[v] = true
			for _, r := range *v.Referrers() {
				switch x := r.(type) {
				case *ssa.DebugRef, *ssa.Return, *ssa.Lookup:
				case *ssa.MapUpdate:
					if x.Key != v {
						mw.OnlyReturned = false
					}
				case *ssa.Phi:
					uses(x)
				case *ssa.Store:
					if al, ok := x.Addr.(*ssa.Alloc); ok && x.Val == v && !al.Heap {
						for _, lr := range *al.Referrers() {
							if ld, ok := lr.(*ssa.UnOp); ok {
								uses(ld)
							}
						}
					} else {
						mw.OnlyReturned = false
					}
				default:
					mw.OnlyReturned = false
				}
			}
		}
		for _, v := range idVals {
			uses(v)
		}
		// does it remember what it issued?
		var whyNot []string
		eachInstr(w, func(r instrRef) {
			mu, ok := r.In.(*ssa.MapUpdate)
			if !ok || mw.SelfExcl {
				return
			}
			if cl, idx := callOf(resolve(mu.Key)); cl != m || idx > 0 {
				return
			}
			pi, field, persistent, why := c.persistentSetOf(w, mu.Map)
			if !persistent {
				whyNot = append(whyNot, why)
				return
			}
			// recorded on every way out with the id
			for _, r := range succ {
				if r.Block() != mu.Block() && reach(m.Block(), nil, map[*ssa.BasicBlock]bool{mu.Block(): true})[r.Block()] {
					whyNot = append(whyNot, "a return hands the id out without recording it")
					return
				}
			}
			// a recorded id is turned down: the set is the generator's own live-id set, or a negative lookup precedes
			rejects := false
			for k, prm := range ns.Params {
				if _, isMap := prm.Type().Underlying().(*types.Map); isMap && k < len(m.Call.Args) && c.canon(m.Call.Args[k]) == c.canon(mu.Map) && !strings.Contains(prm.Type().String(), "TombstoneInfo") {
					rejects = true
				}
			}
			if !rejects {
				neg := edgesWhere(w, func(a Atom, holds bool) bool {
					if a.Kind != "bool" || holds || len(a.Env) > 0 {
						return false
					}
					var lk *ssa.Lookup
					switch x := strip(a.X).(type) {
					case *ssa.Extract:
						if l, ok := x.Tuple.(*ssa.Lookup); ok && x.Index == 1 {
							lk = l
						}
					case *ssa.Lookup:
						lk = x
					}
					if lk == nil || c.canon(lk.X) != c.canon(mu.Map) {
						return false
					}
					cl, idx := callOf(resolve(lk.Index))
					return cl == m && idx <= 0
				})
				rejects = len(neg) > 0
				for _, r := range succ {
					if !mustPassEdges(w, r.Block(), neg) {
						rejects = false
					}
				}
				if !rejects {
					whyNot = append(whyNot, "an id already in the remembered set is not turned down before it is returned")
				}
			}
			if rejects {
				mw.SelfExcl, mw.ObjParam, mw.ObjField = true, pi, field
				mw.Why = "the set " + c.canon(mu.Map)
			}
		})
		if !mw.SelfExcl {
			mw.Why = "it keeps no lasting record of the ids it issued"
			if len(whyNot) > 0 {
				mw.Why = strings.Join(whyNot, "; ")
			}
		}
		out[w] = mw
	}
	return out
}

// failureConvention: the return hands back the zero value in result i together with an error that is not the nil constant.
func failureConvention(r *ssa.Return, i int) bool {
	n := len(r.Results)
	if n < 2 || i >= n-1 || !isErrorType(r.Results[n-1]) {
		return false
	}
	if isNilConst(returnedValue(r, n-1)) {
		return false
	}
	k, ok := strip(returnedValue(r, i)).(*ssa.Const)
	if !ok {
		return false
	}
	if k.Value == nil {
		return true
	}
	s := k.Value.ExactString()
	return s == `""` || s == "0" || s == "false"
}

// persistentSetOf: the map value is read from something that outlives one call of w: a field of w's pointer receiver or
// parameter, a field of a by-value receiver that w itself never assigns (the map header is shared with the caller's
// copy), or a map parameter.
func (c *Ctx) persistentSetOf(w *ssa.Function, m ssa.Value) (param int, field string, ok bool, why string) {
	v := strip(m)
	if p, isP := v.(*ssa.Parameter); isP && p.Parent() == w {
		return paramIndex(p), "", true, ""
	}
	switch x := v.(type) {
	case *ssa.Field:
		if p, isP := resolve(x.X).(*ssa.Parameter); isP && p.Parent() == w {
			return paramIndex(p), fieldName(p.Type(), x.Field), true, ""
		}
	case *ssa.UnOp:
		fa, isFA := x.X.(*ssa.FieldAddr)
		if x.Op != token.MUL || !isFA {
			break
		}
		name := fieldName(fa.X.Type(), fa.Field)
		base := fa.X
		if p, isP := resolve(base).(*ssa.Parameter); isP && p.Parent() == w {
			if _, isPtr := p.Type().Underlying().(*types.Pointer); isPtr {
				return paramIndex(p), name, true, ""
			}
		}
		// the spilled copy of a by-value receiver
		if al, isAl := base.(*ssa.Alloc); isAl {
			var from *ssa.Parameter
			assigned := false
			for _, r := range *al.Referrers() {
				switch y := r.(type) {
				case *ssa.Store:
					if y.Addr == ssa.Value(al) {
						if p, isP := y.Val.(*ssa.Parameter); isP && from == nil {
							from = p
						} else {
							assigned = true
						}
					}
				case *ssa.FieldAddr:
					if y.Field != fa.Field || y.Referrers() == nil {
						continue
					}
					for _, u := range *y.Referrers() {
						if st, isSt := u.(*ssa.Store); isSt && st.Addr == ssa.Value(y) {
							assigned = true
						}
					}
				}
			}
			if from != nil && from.Parent() == w {
				if assigned {
					return -1, "", false, "the set it records ids in (" + name + ") is assigned inside " + c.Name(w) + " on its by-value receiver: the assignment is made to a copy and forgotten when the call returns"
				}
				return paramIndex(from), name, true, ""
			}
		}
	}
	return -1, "", false, "the set it records ids in (" + c.canon(m) + ") does not outlive the call"
}

// sameAllocatorObject: the two calls draw from the same allocator object, created outside any loop that joins them.
func (c *Ctx) sameAllocatorObject(f *ssa.Function, m, m2 *ssa.Call, w *mintWrapper) (bool, string) {
	if w.ObjParam < 0 || w.ObjParam >= len(m.Call.Args) || w.ObjParam >= len(m2.Call.Args) {
		return false, "the allocator object is not identifiable at the call"
	}
	obj := func(v ssa.Value) ssa.Value {
		v = strip(v)
		if u, ok := v.(*ssa.UnOp); ok && u.Op == token.MUL {
			if al, ok := u.X.(*ssa.Alloc); ok {
				return al
			}
		}
		return resolve(v)
	}
	a, b := obj(m.Call.Args[w.ObjParam]), obj(m2.Call.Args[w.ObjParam])
	if a != b && c.canon(a) != c.canon(b) {
		return false, "the two draws use different allocator objects (" + c.canon(a) + " and " + c.canon(b) + ")"
	}
	if in, ok := a.(ssa.Instruction); ok && in.Block() != nil && in.Parent() == f && inCycle(in.Block()) {
		return false, "the allocator object is created anew inside the loop, so it has forgotten the ids of earlier rounds"
	}
	// a by-value allocator whose set field is (re)assigned between the draws starts from an empty record
	if al, ok := a.(*ssa.Alloc); ok && w.ObjField != "" {
		n := 0
		for _, r := range *al.Referrers() {
			if fa, ok := r.(*ssa.FieldAddr); ok && fieldName(fa.X.Type(), fa.Field) == w.ObjField && fa.Referrers() != nil {
				for _, u := range *fa.Referrers() {
					if st, ok := u.(*ssa.Store); ok && st.Addr == ssa.Value(fa) {
						n++
						if inCycle(st.Block()) {
							return false, "the allocator's record (" + w.ObjField + ") is reset inside the loop"
						}
					}
				}
			}
		}
		_ = n
	}
	return true, ""
}

// ------------------------------------------------------------------ VD11

func ruleVD11(c *Ctx) {
	// consumed keys: const-key lookups on map[string]string in the builders
	consumed := map[string]bool{}
	var builders []string
	for _, name := range []string{"buildSetEvents", "buildUpdateEvents", "applySetUpdates"} {
		fn := c.ErgoFn(name)
		if fn == nil {
			continue
		}
		builders = append(builders, name)
		for _, g := range append([]*ssa.Function{fn}, Closures(fn)...) {
			eachInstr(g, func(r instrRef) {
				if lk, ok := r.In.(*ssa.Lookup); ok {
					if mt, ok := lk.X.Type().Underlying().(*types.Map); ok && mt.Key().String() == "string" && mt.Elem().String() == "string" {
						if k, ok := constString(lk.Index); ok {
							consumed[k] = true
						}
					}
				}
			})
		}
	}
	if len(consumed) == 0 {
		c.bad("<module>", "consumed-keys", "-", "no update keys are consumed by the set-event builders")
		return
	}
	c.ok("<module>", "consumed-keys", "-", "builders "+strings.Join(builders, ",")+" consume "+setString(consumed))
	// produced keys: const-key MapUpdates on map[string]string anywhere outside the builders
	type prod struct {
		fn  *ssa.Function
		key string
		pos token.Pos
	}
	var prods []prod
	for _, fn := range c.Fns {
		if Outermost(fn).Name() == "buildSetEvents" {
			continue
		}
		eachInstr(fn, func(r instrRef) {
			mu, ok := r.In.(*ssa.MapUpdate)
			if !ok {
				return
			}
			mt, ok := mu.Map.Type().Underlying().(*types.Map)
			if !ok || mt.Key().String() != "string" || mt.Elem().String() != "string" {
				return
			}
			// only maps that flow to the builders: maps returned/used as update maps — approximated by
			// function membership: producers are functions whose map reaches applySetUpdates/createTask.
			if !c.isUpdateMapProducer(fn, mu.Map) {
				return
			}
			if k, ok := constString(mu.Key); ok {
				prods = append(prods, prod{fn, k, mu.Pos()})
			}
		})
	}
	sort.Slice(prods, func(i, j int) bool { return prods[i].pos < prods[j].pos })
	seen := map[string]int{}
	for _, p := range prods {
		k := c.Name(p.fn) + "|" + p.key
		seen[k]++
		c.check(consumed[p.key], c.Name(p.fn), fmt.Sprintf("produces %q#%d", p.key, seen[k]), c.Pos(p.pos),
			"key is consumed by the builders", "update key "+p.key+" is produced but never consumed by the set-event builders: the field is accepted and silently dropped (or rejected as unknown in map order)")
	}
	if len(prods) == 0 {
		c.bad("<module>", "produced-keys", "-", "no update-map producers found")
	}
}

// isUpdateMapProducer: the map is returned by a function whose result is passed (possibly through variables) to
// applySetUpdates/createTask, or is itself such an argument. Approximation by names of the known producer roles,
// derived from data flow: map value reaches a call argument of a function that (transitively) reaches buildSetEvents.
func (c *Ctx) isUpdateMapProducer(fn *ssa.Function, m ssa.Value) bool {
	bse := c.ErgoFn("buildSetEvents")
	if bse == nil {
		return false
	}
	m = resolve(m)
	// returned?
	for _, r := range returnsOf(fn) {
		for _, res := range r.Results {
			if resolve(res) == m {
				// does any caller pass the result on to something reaching the builder?
				for _, cs := range c.callers[fn] {
					if cv, ok := cs.Call.(*ssa.Call); ok && c.flowsToBuilder(cv, bse) {
						return true
					}
				}
			}
		}
	}
	return c.flowsToBuilder(m, bse)
}

func (c *Ctx) flowsToBuilder(v ssa.Value, bse *ssa.Function) bool {
	return c.flowsToBuilderRec(v, bse, map[ssa.Value]bool{})
}

func (c *Ctx) flowsToBuilderRec(v ssa.Value, bse *ssa.Function, seen map[ssa.Value]bool) bool {
	if seen[v] {
		return false // a loop-carried variable: already being followed
	}
	seen[v] = true
	refs := v.Referrers()
	if refs == nil {
		return false
	}
	for _, r := range *refs {
		switch x := r.(type) {
		case ssa.CallInstruction:
			if cal := calleeOf(x.Common()); cal != nil && c.InModule(cal) {
				if cal == bse || c.reachesWithin(cal, bse, 6) {
					return true
				}
				// through lock callbacks: callee contains a lock site whose callback reaches the builder
				for _, ls := range c.F.LockSites {
					if (ls.Fn == cal || c.reachesWithin(cal, ls.Fn, 3)) && ls.Callback != nil {
						for g := range c.F.TransitiveCallees(ls.Callback) {
							if g == bse {
								return true
							}
						}
					}
				}
			}
		case *ssa.Phi:
			if c.flowsToBuilderRec(x, bse, seen) {
				return true
			}
		case *ssa.Store:
			if cell := cellOf(x.Addr); cell != nil {
				for _, ld := range cellLoads(cell) {
					if c.flowsToBuilderRec(ld, bse, seen) {
						return true
					}
				}
			}
		}
	}
	return false
}

// ------------------------------------------------------------------ VD12

func ruleVD12(c *Ctx) {
	for _, name := range []string{"ParseTaskInput", "ParsePlanInput"} {
		p0 := c.ErgoFn(name)
		if p0 == nil {
			c.unk("ergo."+name, "anchor", "-", "parser not found")
			continue
		}
		fn := c.Name(p0)
		// the function that actually decodes: the parser itself, or a helper whose nil result gates the parser's acceptance
		f := p0
		if len(callsNamed(p0, "(*encoding/json.Decoder).Decode")) == 0 {
			f = nil
			for _, call := range callsIn(p0) {
				h := calleeOf(call.Common())
				cv, isCall := call.(*ssa.Call)
				if h == nil || !isCall || !c.InModule(h) || h.Blocks == nil || len(callsNamed(h, "(*encoding/json.Decoder).Decode")) == 0 {
					continue
				}
				// the parser's accepting returns must pass the helper's nil-result edge
				gate := edgesWhere(p0, func(a Atom, holds bool) bool {
					if a.Kind != "nil" || !holds || len(a.Env) > 0 {
						return false
					}
					cl, _ := callOf(a.X)
					return cl == cv
				})
				okGate := len(gate) > 0
				for _, r := range returnsOf(p0) {
					if len(r.Results) == 2 && isNilConst(r.Results[1]) && !mustPassEdges(p0, r.Block(), gate) {
						okGate = false
					}
				}
				if okGate {
					f = h
				}
			}
			if f == nil {
				c.bad(fn, "unknown-fields-rejected", c.FnPos(p0), "the parser neither decodes itself nor accepts only after a decoding helper returned nil")
				continue
			}
		}
		// accepting returns of the decoding function: last result nil
		var acc []*ssa.Return
		for _, r := range returnsOf(f) {
			if n := len(r.Results); n >= 1 && isNilConst(r.Results[n-1]) {
				acc = append(acc, r)
			}
		}
		decs := callsNamed(f, "(*encoding/json.Decoder).Decode")
		sourceOrder(decs)
		dis := callsNamed(f, "(*encoding/json.Decoder).DisallowUnknownFields")
		okStrict := len(acc) > 0 && len(dis) > 0 && len(decs) >= 1
		if okStrict {
			// same decoder, and DisallowUnknownFields dominates the first Decode
			okStrict = c.canon(dis[0].Common().Args[0]) == c.canon(decs[0].Common().Args[0]) && instrDominates(dis[0], decs[0])
		}
		c.check(okStrict, fn, "unknown-fields-rejected", c.FnPos(f), "DisallowUnknownFields() is set on the decoder before it decodes", "the decoder accepts unknown keys (DisallowUnknownFields missing or on another decoder)")
		// first decode nil edge dominates acceptance
		okFirst := false
		if len(decs) >= 1 {
			if dv, ok := decs[0].(*ssa.Call); ok {
				okFirst = true
				for _, r := range acc {
					if !mustPassEdges(f, r.Block(), nilErrEdges(f, dv)) {
						okFirst = false
					}
				}
			}
		}
		c.check(okFirst && len(acc) > 0, fn, "decode-error-rejected", c.FnPos(f), "acceptance is dominated by Decode==nil", "a payload that failed to decode can be accepted")
		// second decode == io.EOF dominates acceptance
		okEOF := false
		if len(decs) >= 2 {
			if dv, ok := decs[1].(*ssa.Call); ok && c.canon(dv.Call.Args[0]) == c.canon(decs[0].Common().Args[0]) {
				eof := edgesWhere(f, func(a Atom, holds bool) bool {
					if a.Kind != "cmp" || !holds || a.Op != token.EQL {
						return false
					}
					x, y := strip(a.X), strip(a.Y)
					isEOF := func(v ssa.Value) bool {
						if u, ok := v.(*ssa.UnOp); ok && u.Op == token.MUL {
							if g, ok := u.X.(*ssa.Global); ok && g.Name() == "EOF" {
								return true
							}
						}
						return false
					}
					return (x == ssa.Value(dv) && isEOF(y)) || (y == ssa.Value(dv) && isEOF(x))
				})
				okEOF = len(eof) > 0
				for _, r := range acc {
					if !mustPassEdges(f, r.Block(), eof) {
						okEOF = false
					}
				}
			}
		}
		c.check(okEOF, fn, "single-json-value", c.FnPos(f), "acceptance is dominated by a second Decode returning io.EOF", "several JSON values (trailing data) are accepted")
		// ... and the keys mean what they say: encoding/json merges a key that occurs twice in one object and matches
		// field names by case folding, so the document is walked token by token first (a module function that reads
		// (*json.Decoder).Token and compares keys with strings.EqualFold) and acceptance passes its nil result
		var keyGate map[edge]bool
		for _, call := range callsIn(f) {
			h := calleeOf(call.Common())
			cv, isCall := call.(*ssa.Call)
			if h == nil || !isCall || !c.InModule(h) || h.Blocks == nil || len(callsNamed(h, "(*encoding/json.Decoder).Token")) == 0 || len(callsNamed(h, "strings.EqualFold")) == 0 {
				continue
			}
			keyGate = edgesWhere(f, func(a Atom, holds bool) bool {
				if a.Kind != "nil" || !holds || len(a.Env) > 0 {
					return false
				}
				cl, _ := callOf(a.X)
				return cl == cv
			})
		}
		okKeys := len(keyGate) > 0
		for _, r := range acc {
			if !mustPassEdges(f, r.Block(), keyGate) {
				okKeys = false
			}
		}
		if !okKeys && f != p0 {
			// the check may sit in the parser itself, in front of the call of the decoding helper
			var pGate map[edge]bool
			for _, call := range callsIn(p0) {
				h := calleeOf(call.Common())
				cv, isCall := call.(*ssa.Call)
				if h == nil || !isCall || !c.InModule(h) || h.Blocks == nil || len(callsNamed(h, "(*encoding/json.Decoder).Token")) == 0 || len(callsNamed(h, "strings.EqualFold")) == 0 {
					continue
				}
				pGate = edgesWhere(p0, func(a Atom, holds bool) bool {
					if a.Kind != "nil" || !holds || len(a.Env) > 0 {
						return false
					}
					cl, _ := callOf(a.X)
					return cl == cv
				})
			}
			okKeys = len(pGate) > 0
			for _, r := range returnsOf(p0) {
				if len(r.Results) == 2 && isNilConst(r.Results[1]) && !mustPassEdges(p0, r.Block(), pGate) {
					okKeys = false
				}
			}
		}
		c.check(okKeys, fn, "keys-unambiguous", c.FnPos(f), "acceptance passes a token-level check of the document's keys (no duplicate key, no key that matches a field only by case folding)",
			"the document's keys are left to encoding/json alone, which merges a key that occurs twice in one object field by field and matches field names case-insensitively: a plan with two \"tasks\" arrays is accepted and creates a graph that matches neither")
	}
	// commands: validation nil edge dominates the first committing call
	commit := c.commitFuncs()
	for _, e := range c.F.Entries {
		var parses []ssa.CallInstruction
		for _, call := range callsIn(e) {
			if cal := calleeOf(call.Common()); cal != nil && (cal.Name() == "ParseTaskInput" || cal.Name() == "ParsePlanInput") {
				parses = append(parses, call)
			}
		}
		if len(parses) == 0 {
			continue
		}
		fn := c.Name(e)
		for i, p := range parses {
			pv, ok := p.(*ssa.Call)
			if !ok {
				continue
			}
			var input ssa.Value
			for _, r := range *pv.Referrers() {
				if ex, ok := r.(*ssa.Extract); ok && ex.Index == 0 {
					input = ex
				}
			}
			// the validation call: a method on the parsed input whose name starts with Validate
			var val *ssa.Call
			for _, call := range callsIn(e) {
				cv, ok := call.(*ssa.Call)
				if !ok {
					continue
				}
				cal := calleeOf(&cv.Call)
				// (ValidateForSet, or the implementation behind it once it gained a parameter: input.validate(..., limit))
				if cal != nil && strings.HasPrefix(strings.ToLower(cal.Name()), "validate") && len(cv.Call.Args) > 0 && input != nil && resolve(cv.Call.Args[0]) == input {
					val = cv
				}
			}
			construct := fmt.Sprintf("validate-before-commit#%d", i+1)
			if val == nil {
				c.bad(fn, construct, c.Pos(p.Pos()), "the parsed input is never validated (no Validate* call on it)")
				continue
			}
			gate := edgesWhere(e, func(a Atom, holds bool) bool { return a.Kind == "nil" && holds && strip(a.X) == ssa.Value(val) })
			parseGate := edgesWhere(e, func(a Atom, holds bool) bool {
				if a.Kind != "nil" || !holds {
					return false
				}
				cl, idx := callOf(a.X)
				return cl == pv && idx == 1
			})
			// `verr := parse(); if verr == nil { verr = input.Validate() }; if verr != nil { return }`: one variable carries
			// both outcomes. The merged value is nil only if it is the validation's (the parse error flows into the merge
			// on its own non-nil edge), so its nil edge stands for "parsed and validated"
			merged := edgesWhere(e, func(a Atom, holds bool) bool {
				if a.Kind != "nil" || !holds {
					return false
				}
				ph, ok := strip(a.X).(*ssa.Phi)
				if !ok {
					return false
				}
				sawVal := false
				for i, ev := range ph.Edges {
					ev = strip(ev)
					if ev == ssa.Value(val) {
						sawVal = true
						continue
					}
					if cl, idx := callOf(ev); cl == pv && idx == 1 && i < len(ph.Block().Preds) {
						// the parse error arrives over the edge on which it is not nil
						pred := ph.Block().Preds[i]
						okEdge := false
						for _, bf := range directFacts(e) {
							if bf.E.From == pred && bf.E.To() == ph.Block() && bf.A.Kind == "nil" && !bf.Holds {
								if c2, i2 := callOf(bf.A.X); c2 == pv && i2 == 1 {
									okEdge = true
								}
							}
						}
						if okEdge {
							continue
						}
					}
					return false
				}
				return sawVal
			})
			bad := ""
			nCommit := 0
			for _, call := range callsIn(e) {
				cal := calleeOf(call.Common())
				isCommit := cal != nil && (commit[cal] || c.F.isLockFn(cal))
				if !isCommit || !canReachInstr(pv, call) {
					continue
				}
				nCommit++
				if len(merged) > 0 && mustPassEdges(e, call.Block(), merged) {
					continue
				}
				if !mustPassEdges(e, call.Block(), gate) || !mustPassEdges(e, call.Block(), parseGate) {
					bad = fmt.Sprintf("commit %s at %s is reachable from the parse without the validation having passed", c.Name(cal), c.Pos(call.Pos()))
				}
			}
			c.check(bad == "" && nCommit > 0, fn, construct, c.Pos(val.Pos()), fmt.Sprintf("parse ok and %s()==nil dominate the %d committing call(s) after the parse", calleeOf(&val.Call).Name(), nCommit), bad)
			// ... and a rejected input ends the command in failure: on the validation's non-nil edge no return can
			// succeed (reporting the error object on stdout and then returning the *writer's* error exits 0)
			rejected := edgesWhere(e, func(a Atom, holds bool) bool { return a.Kind == "nil" && !holds && strip(a.X) == ssa.Value(val) })
			okExit := ""
			for re := range rejected {
				for b := range reach(re.To(), nil, nil) {
					for _, in := range b.Instrs {
						if r, ok := in.(*ssa.Return); ok && !c.definitelyFails(e, r) {
							// the error returned may be the validation error itself, carried in a variable
							if rv := returnedValue(r, len(r.Results)-1); strip(rv) == ssa.Value(val) || holdsValue(rv, val) {
								continue
							}
							okExit = c.Pos(r.Pos())
						}
					}
				}
			}
			if len(rejected) > 0 {
				c.check(okExit == "", fn, fmt.Sprintf("rejected-input-fails#%d", i+1), c.Pos(val.Pos()), "once validation has rejected the input every return reports a failure",
					"after validation rejected the input the command can still return without an error (at "+okExit+"): a rejected request exits 0 - the caller is told nothing went wrong")
			}
		}
	}
}

// ------------------------------------------------------------------ VD13

func ruleVD13(c *Ctx) {
	rp := c.ErgoFn("RunPlan")
	if rp == nil {
		c.unk("ergo.RunPlan", "anchor", "-", "RunPlan not found")
		return
	}
	var cb *ssa.Function
	for _, ls := range c.F.LockSites {
		if ls.Fn == rp {
			cb = ls.Callback
		}
	}
	if cb == nil {
		c.bad("ergo.RunPlan", "callback", c.FnPos(rp), "plan has no lock callback")
		return
	}
	fn := c.Name(cb)
	var epic, task *Emission
	other := ""
	unit := c.unitOf(cb)
	inUnit := map[*ssa.Function]bool{}
	for _, g := range unit {
		inUnit[g] = true
	}
	// siteLoops: is the emission executed repeatedly - its own block, or the call in the callback that leads to it, lies in a loop
	siteLoops := func(em *Emission) bool {
		if inCycle(em.Call.Block()) {
			return true
		}
		if em.Fn == cb {
			return false
		}
		// the loop may sit in the callback or in any function of its unit on the way to the emission
		// (cb -> compiler.compile(): for each task { compileTask(...) -> newEvent })
		for g := range inUnit {
			for _, call := range callsIn(g) {
				cal := calleeOf(call.Common())
				if cal == nil || !inUnit[cal] {
					continue
				}
				if (cal == em.Fn || c.F.TransitiveCallees(cal)[em.Fn]) && inCycle(call.Block()) {
					return true
				}
			}
		}
		return false
	}
	for _, em := range c.emissions() {
		if !inUnit[em.Fn] {
			continue
		}
		switch {
		case em.has("new_epic") && len(em.Types) == 1:
			epic = em
		case em.has("new_task") && len(em.Types) == 1:
			task = em
		case em.has("link") && len(em.Types) == 1:
		default:
			other = strings.Join(em.Types, "|") + " at " + c.Pos(em.Call.Pos())
		}
	}
	// the plan's commit is the atomic replace (temp + rename), never the in-place append: a plan is one large batch, and
	// a write(2) cut short (ENOSPC, file-size limit, kill) would leave a prefix of it in the live log
	commit := c.commitFuncs()
	nCommit, appendCommit := 0, ""
	for _, g := range unit {
		for _, call := range callsIn(g) {
			cal := calleeOf(call.Common())
			if cal == nil || !commit[cal] || inUnit[cal] {
				continue
			}
			nCommit++
			reachAppend, reachRename := false, false
			for h := range c.F.TransitiveCallees(cal) {
				for _, e := range c.F.Effects {
					if e.Fn != h || e.Path == nil || !c.pathClass(e.Path)[classLOG] {
						continue
					}
					if e.Class == "append-open" && !c.isTempOfLog(e.Path) {
						reachAppend = true
					}
					if e.Class == "rename" {
						reachRename = true
					}
				}
			}
			if reachAppend || !reachRename {
				appendCommit = c.Name(cal) + " at " + c.Pos(call.Pos())
			}
		}
	}
	c.check(nCommit > 0 && appendCommit == "", fn, "commit-is-atomic-replace", c.FnPos(cb), "the plan is committed by the temp-file + rename primitive only",
		"the plan is committed through "+appendCommit+", which can append to the live log in place: a short or interrupted write leaves a prefix of the plan (an epic with some of its tasks) although the command failed")
	c.check(other == "", fn, "only-create-and-link", c.FnPos(cb), "plan emits only new_epic, new_task and link events", "plan also emits "+other+" (a plan's tasks must start todo and unclaimed)")
	if epic == nil || task == nil {
		c.bad(fn, "epic-and-tasks", c.FnPos(cb), "plan callback lacks a new_epic or a new_task emission")
		return
	}
	c.check(!siteLoops(epic), fn, "one-epic", c.Pos(epic.Call.Pos()), "exactly one epic event (not in a loop)", "the epic event is emitted in a loop")
	// every entry is considered: a loop of the plan that emits events (tasks, or the edges of one task's `after` list) is
	// left early only by failing the whole plan. A success return (or a break) from inside its body silently drops the
	// entries not yet reached - the plan reports success with fewer tasks or edges than it names
	for _, em := range c.emissions() {
		if !inUnit[em.Fn] || !inCycle(em.Call.Block()) {
			continue
		}
		typ := em.Types[0]
		early := earlyLoopExits(c, em.Fn, em.Call.Block())
		c.check(len(early) == 0, c.Name(em.Fn), "entry-loop-runs-to-the-end "+typ, c.Pos(em.Call.Pos()), "the loop around this emission is left early only by a failing return",
			"the loop that emits "+typ+" events can be left before its last entry without failing the plan ("+strings.Join(early, "; ")+"): the entries after that point are dropped and the plan still reports success")
	}
	// task emission: inside the range loop over input.Tasks, no extra condition
	c.check(siteLoops(task), fn, "task-per-entry", c.Pos(task.Call.Pos()), "task events are emitted in the loop over the input tasks", "new_task is not emitted per input entry")
	c.check(constStr(task.Fields["State"]) == "todo" && constStr(epic.Fields["State"]) == "todo", fn, "tasks-start-todo", c.Pos(task.Call.Pos()), "State is the constant todo", "a planned item is created in a state other than todo")
	c.check(task.Fields["EpicID"] != nil && epic.Fields["ID"] != nil && c.canon(task.Fields["EpicID"]) == c.canon(epic.Fields["ID"]), fn, "tasks-inside-the-epic", c.Pos(task.Call.Pos()), "each task's EpicID is the epic event's ID", "a planned task's EpicID is not the id of the epic created by the same plan")
	if s, ok := constString(epic.Fields["EpicID"]); !ok || s != "" {
		c.bad(fn, "epic-has-no-epic", c.Pos(epic.Call.Pos()), "the plan's epic is given an EpicID")
	} else {
		c.ok(fn, "epic-has-no-epic", c.Pos(epic.Call.Pos()), "the epic's EpicID is the constant \"\"")
	}
	// reply ids are the event ids: out.Epic.ID stored value == epic ID value; planTaskOutput.ID == task ID
	replyEpic, replyTask := false, false
	for _, g := range unit {
		eachInstr(g, func(r instrRef) {
			st, ok := r.In.(*ssa.Store)
			if !ok {
				return
			}
			fa, ok := st.Addr.(*ssa.FieldAddr)
			if !ok || fieldName(fa.X.Type(), fa.Field) != "ID" {
				return
			}
			tn := namedTypeName(fa.X.Type())
			if tn == "ergo.planEntityOutput" && c.canon(st.Val) == c.canon(epic.Fields["ID"]) {
				replyEpic = true
			}
			if tn == "ergo.planTaskOutput" && c.canon(st.Val) == c.canon(task.Fields["ID"]) {
				replyTask = true
			}
		})
	}
	c.check(replyEpic && replyTask, fn, "reply-ids-are-event-ids", c.FnPos(cb), "the reply's epic and task ids are the same values as the committed events' ids", fmt.Sprintf("reply ids differ from the committed ids (epic=%v task=%v)", replyEpic, replyTask))
	// titles and bodies: loads of the input pointers, no string transformation
	okText := true
	why := ""
	for _, em := range []*Emission{epic, task} {
		for _, fl := range []string{"Title", "Body"} {
			v := em.Fields[fl]
			if v == nil {
				okText, why = false, fl+" missing"
				continue
			}
			if !textIsInputLoad(v) {
				okText, why = false, fl+" of "+em.Types[0]+" is "+c.canon(v)
			}
		}
	}
	c.check(okText, fn, "text-is-input-verbatim", c.FnPos(cb), "titles and bodies are loads of the parsed input's string pointers (or \"\"), untransformed", "a title/body is transformed before being recorded: "+why)
}

// earlyLoopExits: the ways out of the innermost loop around blk that are neither the loop's own exit (an edge leaving from
// its header: the range/condition test) nor a failing return: `return nil` or `break` inside the body.
func earlyLoopExits(c *Ctx, f *ssa.Function, blk *ssa.BasicBlock) []string {
	// innermost loop = the smallest strongly connected set containing blk: blocks that reach blk and are reached from it,
	// taken inside the innermost header that dominates blk
	fromBlk := reach(blk, nil, nil)
	body := map[*ssa.BasicBlock]bool{}
	for _, b := range f.Blocks {
		if fromBlk[b] && reach(b, nil, nil)[blk] {
			body[b] = true
		}
	}
	body[blk] = true
	// the header: the block of the loop entered from outside
	var hdr *ssa.BasicBlock
	for b := range body {
		for _, p := range b.Preds {
			if !body[p] && (hdr == nil || b.Index < hdr.Index) {
				hdr = b
			}
		}
	}
	// an inner loop nested in an outer one: shrink to the blocks that stay inside without passing the outer header...
	// (the SCC of blk already is the outermost loop containing it; restrict to the innermost by taking as header the
	// dominating loop-head closest to blk)
	for b := range body {
		if b != hdr && b.Dominates(blk) && isLoopHead(b, body) && (hdr == nil || hdr.Dominates(b)) {
			hdr = b
		}
	}
	if hdr != nil {
		inner := map[*ssa.BasicBlock]bool{hdr: true}
		// blocks that reach blk... inside hdr's loop: dominated by hdr and able to come back to hdr
		for b := range body {
			if hdr.Dominates(b) && reachAvoiding(b, hdr, nil) {
				inner[b] = true
			}
		}
		body = inner
	}
	var out []string
	seen := map[string]bool{}
	for b := range body {
		if b == hdr {
			continue
		}
		for _, sblk := range b.Succs {
			if body[sblk] {
				continue
			}
			// where does this exit lead: only failing returns / panics are fine
			for x := range reach(sblk, nil, map[*ssa.BasicBlock]bool{hdr: true}) {
				if len(x.Instrs) == 0 {
					continue
				}
				r, isRet := x.Instrs[len(x.Instrs)-1].(*ssa.Return)
				if !isRet || x.Comment == "recover" || c.definitelyFails(f, r) {
					continue
				}
				msg := "leaves the loop at " + c.Pos(lastPos(b)) + " and can end in the non-failing return at " + c.Pos(r.Pos())
				if !seen[msg] {
					seen[msg] = true
					out = append(out, msg)
				}
			}
		}
	}
	sort.Strings(out)
	return out
}

func isLoopHead(b *ssa.BasicBlock, body map[*ssa.BasicBlock]bool) bool {
	for _, p := range b.Preds {
		if body[p] && b.Dominates(p) {
			return true
		}
	}
	return false
}

// reachAvoiding: from can reach target (in one or more steps).
func reachAvoiding(from, target *ssa.BasicBlock, blocked map[*ssa.BasicBlock]bool) bool {
	for _, s := range from.Succs {
		if s == target || reach(s, nil, blocked)[target] {
			return true
		}
	}
	return false
}

func lastPos(b *ssa.BasicBlock) token.Pos {
	for i := len(b.Instrs) - 1; i >= 0; i-- {
		if p := b.Instrs[i].Pos(); p.IsValid() {
			return p
		}
	}
	return token.NoPos
}

// textIsInputLoad: v is *ptr where ptr is a field of the parsed input (Title/Body), or phi of that and "".
func textIsInputLoad(v ssa.Value) bool { return textIsInputLoadE(v, nil) }

// textIsInputLoadE: the same with an accessor's parameters bound to its call's arguments.
func textIsInputLoadE(v ssa.Value, e env) bool {
	return textIsInputLoadRec(v, e, map[ssa.Value]bool{})
}

func textIsInputLoadRec(v ssa.Value, e env, onPath map[ssa.Value]bool) bool {
	v = strip(v)
	if onPath[v] {
		// a loop-carried value: the text recorded for this entry can be the one left over from an earlier entry
		return false
	}
	onPath[v] = true
	defer delete(onPath, v)
	if cl, ok := v.(*ssa.Call); ok {
		// an accessor such as GetBody() or stringOrEmpty(input.Body): every return is the field's string or ""
		h := calleeOf(&cl.Call)
		if h == nil || h.Blocks == nil || curProg == nil || !curProg.InModule(h) {
			return false
		}
		e2 := env{}
		for i, prm := range h.Params {
			if i < len(cl.Call.Args) {
				e2[prm] = resolveEnv(cl.Call.Args[i], e)
			}
		}
		for _, r := range returnsOf(h) {
			if len(r.Results) != 1 || !textIsInputLoadRec(r.Results[0], e2, onPath) {
				return false
			}
		}
		return true
	}
	if u, ok := v.(*ssa.UnOp); ok && u.Op == token.MUL {
		// *p with p an accessor's *string parameter: the argument must be the input's Title/Body pointer field
		if prm, isPrm := u.X.(*ssa.Parameter); isPrm {
			if a, bound := e[prm]; bound {
				if _, n, ok := fieldLoad(strip(a)); ok {
					return n == "Title" || n == "Body"
				}
			}
			return false
		}
	}
	switch x := v.(type) {
	case *ssa.Const:
		return constStr(x) == "" && x.Value != nil
	case *ssa.Phi:
		for _, ed := range x.Edges {
			if !textIsInputLoadRec(ed, e, onPath) {
				return false
			}
		}
		return true
	case *ssa.UnOp:
		if x.Op != token.MUL {
			return false
		}
		// *(&input.Title) then deref again: load of pointer field then load of string
		if inner, ok := x.X.(*ssa.UnOp); ok && inner.Op == token.MUL {
			if fa, ok := inner.X.(*ssa.FieldAddr); ok {
				n := fieldName(fa.X.Type(), fa.Field)
				return n == "Title" || n == "Body"
			}
		}
		if _, n, ok := fieldLoad(x); ok {
			return n == "Title" || n == "Body"
		}
	}
	return false
}

// onlyFromCallTo: every value that can flow into v (through phis, cells and whole-struct copies) is the result of a call to fn.
func onlyFromCallTo(v ssa.Value, fn *ssa.Function, d int) bool {
	if v == nil || d > 12 {
		return false
	}
	v = strip(v)
	switch x := v.(type) {
	case *ssa.Phi:
		for _, e := range x.Edges {
			if !onlyFromCallTo(e, fn, d+1) {
				return false
			}
		}
		return true
	case *ssa.Extract:
		if cl, ok := x.Tuple.(*ssa.Call); ok {
			return calleeOf(&cl.Call) == fn
		}
		return false
	case *ssa.Call:
		return calleeOf(&x.Call) == fn
	case *ssa.UnOp:
		if x.Op == token.MUL {
			if cell := cellOf(x.X); cell != nil {
				return onlyFromCallTo(cell, fn, d+1)
			}
		}
		return false
	case *ssa.Alloc:
		sts := cellStores(x)
		if len(sts) == 0 {
			return false
		}
		for _, st := range sts {
			if !onlyFromCallTo(st.Val, fn, d+1) {
				return false
			}
		}
		// no field-wise stores into the local copy
		for _, r := range *x.Referrers() {
			if fa, ok := r.(*ssa.FieldAddr); ok {
				for _, u := range *fa.Referrers() {
					if _, isStore := u.(*ssa.Store); isStore {
						return false
					}
				}
			}
		}
		return true
	}
	return false
}
