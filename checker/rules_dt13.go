package main

// DT13: a sort.Slice comparator indexes the slice that is being sorted.

import (
	"fmt"
	"go/token"

	"golang.org/x/tools/go/ssa"
)

func init() {
	register(&Rule{ID: "DT13", Min: 1, Run: ruleDT13,
		Doc: "comparator-indexes-the-sorted-slice: sort.Slice(x, func(i, j int) bool {...}) hands the comparator positions in x. A comparator that indexes another slice with them (a stale variable left behind by a refactoring: the unfiltered list, a copy) orders x by the wrong elements, silently, whenever the two slices differ. Every index expression inside a sort.Slice/SliceStable comparator whose index is one of its two parameters must be on x itself (the same variable)"})
}

func ruleDT13(c *Ctx) {
	n := 0
	for _, f := range c.Fns {
		if !c.InModule(f) || f.Blocks == nil {
			continue
		}
		k := 0
		for _, call := range callsIn(f) {
			name := calleeFullName(call.Common())
			if name != "sort.Slice" && name != "sort.SliceStable" || len(call.Common().Args) != 2 {
				continue
			}
			subj := call.Common().Args[0]
			if mi, ok := subj.(*ssa.MakeInterface); ok {
				subj = mi.X
			}
			for _, lf := range funcValuesOf(call.Common().Args[1], 0) {
				if len(lf.Params) != 2 {
					continue
				}
				k++
				n++
				bad := ""
				same := func(v ssa.Value) bool {
					if resolve(v) == resolve(subj) || sameSliceVar(v, subj) {
						return true
					}
					// the comparator reads the captured variable: a load of the cell the sorted value was loaded from
					if u, ok := strip(v).(*ssa.UnOp); ok && u.Op == token.MUL {
						if su, ok := strip(subj).(*ssa.UnOp); ok && su.Op == token.MUL {
							if ca, cb := cellOf(u.X), cellOf(su.X); ca != nil && ca == cb {
								return true
							}
						}
					}
					if fv, ok := strip(v).(*ssa.FreeVar); ok {
						if b := bindingOf(fv); b != nil && (resolve(b) == resolve(subj) || b == subj) {
							return true
						}
					}
					return c.canon(v) == c.canon(subj)
				}
				eachInstr(lf, func(r instrRef) {
					var x, idx ssa.Value
					switch y := r.In.(type) {
					case *ssa.IndexAddr:
						x, idx = y.X, y.Index
					case *ssa.Index:
						x, idx = y.X, y.Index
					default:
						return
					}
					if strip(idx) != ssa.Value(lf.Params[0]) && strip(idx) != ssa.Value(lf.Params[1]) {
						return
					}
					if !same(x) {
						bad = fmt.Sprintf("%s at %s", c.canon(x), c.Pos(r.In.Pos()))
					}
				})
				c.check(bad == "", c.Name(f), fmt.Sprintf("sort.Slice#%d", k), c.Pos(call.Pos()), "the comparator indexes the slice being sorted",
					"the comparator of this sort indexes "+bad+" with the positions it is handed, not the slice being sorted ("+c.canon(subj)+"): the order is decided by the elements of another slice")
			}
		}
	}
	if n == 0 {
		c.ok("<module>", "sort.Slice", "-", "no sort.Slice comparator in the module")
	}
}
