package main

// RD6: the state the readiness predicates are evaluated on is the state replay built.

import (
	"fmt"
	"go/token"

	"golang.org/x/tools/go/ssa"
)

func init() {
	register(&Rule{ID: "RD6", Min: 1, Run: ruleRD6,
		Doc: "replayed-state-not-thinned: outside replay (replayEvents and its private helpers) no command removes entries from the maps of the replayed Graph (Tasks, Deps, RDeps, Meta or the dependency sets inside them) and none overwrites State, ClaimedBy or EpicID of a Task it looked up there. The readiness predicates read an id that is absent from Graph.Tasks as a satisfied (pruned) dependency, so hiding a live item from them - to skip it, to filter a view - makes its dependents ready; commands may add provisional items and edges (plan, sequence do, to run the cycle check), which can only make fewer items ready"})
}

// graphFieldOf: v is (a load of) a field of a Graph, or an inner set looked up in one: returns the field name.
func graphFieldOf(v ssa.Value, d int) (string, bool) {
	if d > 8 {
		return "", false
	}
	v = resolve(v)
	switch x := v.(type) {
	case *ssa.UnOp:
		if x.Op == token.MUL {
			if fa, ok := x.X.(*ssa.FieldAddr); ok && namedTypeName(fa.X.Type()) == "ergo.Graph" {
				return fieldName(fa.X.Type(), fa.Field), true
			}
		}
	case *ssa.Field:
		if namedTypeName(x.X.Type()) == "ergo.Graph" {
			return fieldName(x.X.Type(), x.Field), true
		}
	case *ssa.Lookup:
		if n, ok := graphFieldOf(x.X, d+1); ok {
			return n + "[..]", true
		}
	case *ssa.Extract:
		if lk, ok := x.Tuple.(*ssa.Lookup); ok {
			return graphFieldOf(lk, d+1)
		}
		if nx, ok := x.Tuple.(*ssa.Next); ok {
			if rg, ok := nx.Iter.(*ssa.Range); ok && x.Index == 2 {
				if n, ok := graphFieldOf(rg.X, d+1); ok {
					return n + "[..]", true
				}
			}
		}
	case *ssa.Phi:
		for _, e := range x.Edges {
			if n, ok := graphFieldOf(e, d+1); ok {
				return n, true
			}
		}
	}
	return "", false
}

func ruleRD6(c *Ctx) {
	rm := c.replay()
	if rm == nil {
		c.unk("<module>", "replay", "-", "replay model not identified")
		return
	}
	inReplay := map[*ssa.Function]bool{}
	for _, g := range rm.Unit {
		inReplay[g] = true
		for _, cl := range Closures(g) {
			inReplay[cl] = true
		}
	}
	// whatever replay calls is replay (applyTombstone is a role of its own, not a private helper)
	for g := range c.F.TransitiveCallees(rm.Root) {
		if c.InModule(g) {
			inReplay[g] = true
		}
	}
	nFn, nBad := 0, 0
	// ... but a replay function that removes entries must not be borrowed by a command to thin the graph
	for g := range inReplay {
		if g.Blocks == nil {
			continue
		}
		removes := false
		for _, call := range callsIn(g) {
			if calleeFullName(call.Common()) == "builtin delete" && len(call.Common().Args) == 2 {
				if n, ok := graphFieldOf(call.Common().Args[0], 0); ok && (n == "Tasks" || n == "Deps" || n == "RDeps") {
					removes = true
				}
			}
		}
		if !removes {
			continue
		}
		for i, cs := range c.callers[g] {
			if !inReplay[cs.Fn] && !inReplay[Outermost(cs.Fn)] {
				nBad++
				c.bad(c.Name(cs.Fn), fmt.Sprintf("call %s#%d", g.Name(), i+1), c.Pos(cs.Call.Pos()),
					"a command applies "+c.Name(g)+", which removes entries from the replayed graph, outside replay: an id missing from the graph reads as a satisfied (pruned) dependency")
			}
		}
	}
	for _, fn := range c.Fns {
		if !c.InModule(fn) || fn.Blocks == nil || inReplay[fn] || inReplay[Outermost(fn)] {
			continue
		}
		readsGraph := false
		k := 0
		eachInstr(fn, func(r instrRef) {
			switch x := r.In.(type) {
			case ssa.CallInstruction:
				if calleeFullName(x.Common()) == "builtin delete" && len(x.Common().Args) == 2 {
					if n, ok := graphFieldOf(x.Common().Args[0], 0); ok {
						k++
						nBad++
						c.bad(c.Name(fn), fmt.Sprintf("delete from Graph.%s#%d", n, k), c.Pos(x.Pos()),
							"an entry is removed from the replayed Graph."+n+" outside replay: an id missing from the graph reads as a satisfied (pruned) dependency, so the items waiting for it become ready and can be handed out")
					}
				}
			case *ssa.Store:
				fa, ok := x.Addr.(*ssa.FieldAddr)
				if !ok || namedTypeName(fa.X.Type()) != "ergo.Task" {
					return
				}
				fname := fieldName(fa.X.Type(), fa.Field)
				if fname != "State" && fname != "ClaimedBy" && fname != "EpicID" {
					return
				}
				if n, ok := graphFieldOf(fa.X, 0); ok {
					k++
					nBad++
					c.bad(c.Name(fn), fmt.Sprintf("store Task.%s of Graph.%s#%d", fname, n, k), c.Pos(x.Pos()),
						"Task."+fname+" of an item of the replayed graph is overwritten outside replay: predicates evaluated afterwards no longer see the recorded state")
				}
			case *ssa.FieldAddr:
				if namedTypeName(x.X.Type()) == "ergo.Graph" {
					readsGraph = true
				}
			}
		})
		if readsGraph {
			nFn++
		}
	}
	c.check(nBad == 0 && nFn > 0, "<module>", "replayed-state-not-thinned", "-", fmt.Sprintf("%d functions outside replay use the Graph; none deletes from its maps or overwrites the state of a looked-up item", nFn),
		"see the individual sites")
}
