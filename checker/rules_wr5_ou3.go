package main

// WR5 (storage-error propagation, E9) and OU3 (reply matches commit).

import (
	"fmt"
	"go/constant"
	"go/token"
	"go/types"
	"reflect"
	"sort"
	"strings"

	"golang.org/x/tools/go/ssa"
)

func init() {
	register(&Rule{ID: "WR5", Min: 20, Run: ruleWR5,
		Doc: "storage-error-propagation: the error result of every call that can reach a file mutation, a handle write/flush/sync or a lock operation is either returned directly, or tested with every path on its non-nil edge returning an error derived from it (wrapped or not); recognised exception: a sentinel produced inside the command's own lock callback and compared by text (the no-ready-tasks reply); frozen exceptions: deferred Close of the two write handles, deferred close/unlock in the lock primitive; a Close/Remove whose error is dropped is accepted as clean-up where every exit reachable from it already returns a non-nil error, or inside a deferred closure behind a test that the enclosing function's named error result is non-nil"})
	register(&Rule{ID: "OU3", Min: 6, Run: ruleOU3,
		Doc: "reply-matches-commit: the values a success reply reports (ids, uuid, epic, title, body, timestamps, agent, state, claimant, edges) are the same SSA values or constants as the fields of the events committed by that command, or are read off a replay of exactly the events being committed"})
}

// ------------------------------------------------------------------ WR5

func storageEffectClass(class string) bool {
	if contentMutator(class) {
		return true
	}
	switch class {
	case "handle-write", "buf-write", "buf-flush", "sync", "flock", "sys-read-open", "mkdir", "create-open", "sys-create-open":
		return true
	}
	return false
}

func (c *Ctx) storageFuncs() map[*ssa.Function]bool {
	direct := map[*ssa.Function]bool{}
	for _, e := range c.F.Effects {
		if storageEffectClass(e.Class) {
			direct[e.Fn] = true
		}
	}
	out := map[*ssa.Function]bool{}
	for _, fn := range c.Fns {
		for g := range c.F.TransitiveCallees(fn) {
			if direct[g] {
				out[fn] = true
				break
			}
		}
	}
	return out
}

func errorResultIndex(call ssa.CallInstruction) int {
	sig := call.Common().Signature()
	res := sig.Results()
	for i := res.Len() - 1; i >= 0; i-- {
		if res.At(i).Type().String() == "error" {
			return i
		}
	}
	return -1
}

// errValueOf returns the SSA value carrying the call's error result (the call itself or its Extract).
func errValueOf(cv *ssa.Call, idx int) ssa.Value {
	if cv.Call.Signature().Results().Len() == 1 {
		return cv
	}
	for _, r := range *cv.Referrers() {
		if ex, ok := r.(*ssa.Extract); ok && ex.Index == idx {
			return ex
		}
	}
	return nil
}

func ruleWR5(c *Ctx) {
	storage := c.storageFuncs()
	cnt := map[string]int{}
	total, propagated := 0, 0
	type site struct {
		fn   *ssa.Function
		call ssa.CallInstruction
		name string
	}
	var sites []site
	for _, fn := range c.Fns {
		for _, call := range callsIn(fn) {
			cal := calleeOf(call.Common())
			name := ""
			if cal != nil && c.InModule(cal) {
				if !storage[cal] {
					continue
				}
				name = c.Name(cal)
			} else {
				e := c.F.byCall[call]
				if e == nil || !(storageEffectClass(e.Class) || e.Class == "close" || e.Class == "sys-close") {
					continue
				}
				name = calleeFullName(call.Common())
			}
			if errorResultIndex(call) < 0 {
				continue
			}
			sites = append(sites, site{fn, call, name})
		}
	}
	sort.SliceStable(sites, func(i, j int) bool { return sites[i].call.Pos() < sites[j].call.Pos() })
	for _, s := range sites {
		fn := c.Name(s.fn)
		k := fn + "|" + s.name
		cnt[k]++
		construct := fmt.Sprintf("call %s#%d", s.name, cnt[k])
		pos := c.Pos(s.call.Pos())
		total++
		// frozen exceptions
		if reason := c.wr5Exception(s.fn, s.call, s.name); reason != "" {
			c.ok(fn, construct, pos, "frozen exception: "+reason)
			propagated++
			continue
		}
		cv, isCall := s.call.(*ssa.Call)
		if !isCall {
			c.bad(fn, construct, pos, "error of a deferred/spawned storage call is dropped")
			continue
		}
		idx := errorResultIndex(s.call)
		ev := errValueOf(cv, idx)
		if ev == nil {
			c.bad(fn, construct, pos, "the error result of "+s.name+" is discarded: the command can report success although the write/lock operation failed")
			continue
		}
		ok, why := c.errorPropagates(s.fn, cv, ev)
		if ok {
			propagated++
			c.ok(fn, construct, pos, why)
		} else if s.name == "os.Remove" && c.removeToleratesAbsence(s.fn, ev) {
			propagated++
			c.ok(fn, construct, pos, "remove-if-present: every error but `does not exist` is propagated (an absent file is the wanted outcome)")
		} else if c.cleanupOnFailingPath(s.fn, cv, s.name) {
			propagated++
			c.ok(fn, construct, pos, "clean-up (close/remove) on a path every exit of which already returns a non-nil error: success is not reported from here")
		} else {
			c.bad(fn, construct, pos, "the error of "+s.name+" is not propagated: "+why+" — exit 0 no longer implies the write happened")
		}
	}
	c.ok("<module>", "storage-call-sites", "-", fmt.Sprintf("%d storage call sites with an error result, %d propagate", total, propagated))
}

// removeToleratesAbsence: the error of an os.Remove is returned unless it says the file was not there:
// `if err := os.Remove(p); err != nil && !errors.Is(err, os.ErrNotExist) { return err }`.
func (c *Ctx) removeToleratesAbsence(fn *ssa.Function, ev ssa.Value) bool {
	absent := edgesWhere(fn, func(a Atom, holds bool) bool {
		if a.Kind != "bool" || !holds {
			return false
		}
		cl, _ := callOf(a.X)
		if cl == nil || len(cl.Call.Args) == 0 || strip(cl.Call.Args[0]) != strip(ev) {
			return false
		}
		switch calleeFullName(&cl.Call) {
		case "os.IsNotExist":
			return true
		case "errors.Is":
			return len(cl.Call.Args) == 2 && (isGlobalLoad(cl.Call.Args[1], "ErrNotExist") || strings.Contains(c.canon(cl.Call.Args[1]), "ErrNotExist"))
		}
		return false
	})
	if len(absent) == 0 {
		return false
	}
	// on the non-nil edge every return that does not fail lies behind the `does not exist` answer
	nonNil := edgesWhere(fn, func(a Atom, holds bool) bool { return a.Kind == "nil" && !holds && strip(a.X) == strip(ev) })
	for e := range nonNil {
		for b := range reach(e.To(), absentEdgesRemoved(absent), nil) {
			if len(b.Instrs) == 0 {
				continue
			}
			if r, ok := b.Instrs[len(b.Instrs)-1].(*ssa.Return); ok && !c.definitelyFails(fn, r) {
				// reachable from the non-nil edge without the `absent` answer: only fine if that return is also reachable
				// solely through... keep it strict
				if !mustPassEdges(fn, b, unionEdges(absent, edgesWhere(fn, func(a Atom, holds bool) bool { return a.Kind == "nil" && holds && strip(a.X) == strip(ev) }))) {
					return false
				}
			}
		}
	}
	return true
}

func absentEdgesRemoved(absent map[edge]bool) map[edge]bool { return absent }

// cleanupOnFailingPath: a Close or Remove whose error is dropped, placed where the function has already failed: every
// return reachable from the call hands back an error known to be non-nil there.
func (c *Ctx) cleanupOnFailingPath(fn *ssa.Function, cv *ssa.Call, name string) bool {
	if name != "(*os.File).Close" && name != "os.Remove" && name != "syscall.Close" {
		return false
	}
	blk := cv.Block()
	if blk == nil {
		return false
	}
	if c.inDeferredFailureCleanup(fn, cv) {
		return true
	}
	n := 0
	for b := range reach(blk, nil, nil) {
		if len(b.Instrs) == 0 {
			continue
		}
		r, ok := b.Instrs[len(b.Instrs)-1].(*ssa.Return)
		if !ok {
			continue
		}
		if b == blk && !reachesSelf(blk) && instrIndex(r) < instrIndex(cv) {
			continue
		}
		n++
		if !c.definitelyFails(fn, r) {
			return false
		}
	}
	return n > 0
}

// inDeferredFailureCleanup: the call sits in a closure the enclosing function only defers, behind a test that the
// enclosing function's named error result is non-nil (defer func() { if err != nil { os.Remove(tmp) } }()): the function
// is already reporting a failure when the clean-up runs.
func (c *Ctx) inDeferredFailureCleanup(fn *ssa.Function, cv *ssa.Call) bool {
	parent := fn.Parent()
	if parent == nil || len(fn.FreeVars) == 0 {
		return false
	}
	var mc *ssa.MakeClosure
	for _, b := range parent.Blocks {
		for _, in := range b.Instrs {
			if m, ok := in.(*ssa.MakeClosure); ok && m.Fn == ssa.Value(fn) {
				if mc != nil {
					return false
				}
				mc = m
			}
		}
	}
	if mc == nil || mc.Referrers() == nil {
		return false
	}
	for _, r := range *mc.Referrers() {
		switch x := r.(type) {
		case *ssa.Defer:
			if x.Call.Value != ssa.Value(mc) {
				return false
			}
		case *ssa.DebugRef:
		default:
			return false
		}
	}
	// the captured cell that is the parent's error result
	res := parent.Signature.Results()
	if res.Len() == 0 || res.At(res.Len()-1).Type().String() != "error" {
		return false
	}
	var errVar *ssa.FreeVar
	for i, fv := range fn.FreeVars {
		al, ok := mc.Bindings[i].(*ssa.Alloc)
		if !ok || al.Comment != res.At(res.Len()-1).Name() || al.Comment == "" {
			continue
		}
		returned := false
		for _, r := range returnsOf(parent) {
			if len(r.Results) == res.Len() {
				if ld, ok := strip(r.Results[res.Len()-1]).(*ssa.UnOp); ok && ld.Op == token.MUL && ld.X == ssa.Value(al) {
					returned = true
				}
			}
		}
		if returned {
			errVar = fv
		}
	}
	if errVar == nil {
		return false
	}
	for _, st := range storesTo(fn, errVar) {
		_ = st
		return false // the closure itself rewrites the result: not a pure clean-up
	}
	failing := edgesWhere(fn, func(a Atom, holds bool) bool {
		if a.Kind != "nil" || holds || len(a.Env) != 0 {
			return false
		}
		ld, ok := strip(a.X).(*ssa.UnOp)
		return ok && ld.Op == token.MUL && ld.X == ssa.Value(errVar)
	})
	return len(failing) > 0 && mustPassEdges(fn, cv.Block(), failing)
}

// storesTo: the stores in f whose address is v.
func storesTo(f *ssa.Function, v ssa.Value) []*ssa.Store {
	var out []*ssa.Store
	for _, b := range f.Blocks {
		for _, in := range b.Instrs {
			if st, ok := in.(*ssa.Store); ok && st.Addr == v {
				out = append(out, st)
			}
		}
	}
	return out
}

func reachesSelf(b *ssa.BasicBlock) bool {
	for _, s := range b.Succs {
		if reach(s, nil, nil)[b] {
			return true
		}
	}
	return false
}

func (c *Ctx) wr5Exception(fn *ssa.Function, call ssa.CallInstruction, name string) string {
	_, isDefer := call.(*ssa.Defer)
	switch name {
	case "(*os.File).Close":
		if isDefer {
			// deferred close of a handle: accepted for read-only handles and for the two write handles whose data is already written/flushed
			return "deferred Close (read handle, or write handle after unbuffered write / Flush+Sync)"
		}
		// explicit close whose error is returned is checked normally
		return ""
	case "syscall.Close":
		if isDefer && fn == c.F.LockPrim {
			return "deferred close of the lock fd (kernel releases the lock on close)"
		}
	case "syscall.Flock":
		if op, ok := constInt(call.Common().Args[1]); ok && op == c.F.sysConst["LOCK_UN"] && Outermost(fn) == c.F.LockPrim {
			return "unlock in the lock primitive's deferred function (kernel releases on close)"
		}
	}
	return ""
}

// errorPropagates: ev (the error value of cv) is returned, or tested with all non-nil paths returning an error derived from it.
func (c *Ctx) errorPropagates(f *ssa.Function, cv *ssa.Call, ev ssa.Value) (bool, string) {
	derives := func(r *ssa.Return) bool {
		for _, sv := range errorSourceValues(r) {
			if sv == ssa.Value(cv) {
				return true
			}
			if sc, ok := sv.(*ssa.Call); ok {
				n := calleeFullName(&sc.Call)
				if n == "fmt.Errorf" || n == "errors.Join" {
					for _, a := range variadicElems(sc.Call.Args[1:]) {
						if derivesFrom(a, ev) {
							return true
						}
					}
				}
			}
			if derivesFrom(sv, ev) {
				return true
			}
		}
		return false
	}
	// direct return (same block or via result cell)
	directly := false
	for _, r := range returnsOf(f) {
		if len(r.Results) == 0 {
			continue
		}
		v := returnedValue(r, len(r.Results)-1)
		if strip(v) == ev || (len(r.Results) >= 1 && strip(r.Results[len(r.Results)-1]) == ev) {
			directly = true
		}
	}
	nonNil := edgesWhere(f, func(a Atom, holds bool) bool { return a.Kind == "nil" && !holds && strip(a.X) == ev })
	if len(nonNil) == 0 {
		// a phi merging this error with others and tested later
		for _, r := range *ev.Referrers() {
			if ph, ok := r.(*ssa.Phi); ok {
				pn := edgesWhere(f, func(a Atom, holds bool) bool { return a.Kind == "nil" && !holds && strip(a.X) == ssa.Value(ph) })
				for e := range pn {
					nonNil[e] = true
				}
				if len(pn) > 0 {
					ev2 := ssa.Value(ph)
					_ = ev2
				}
			}
			// stored into a named result / captured cell
			if st, ok := r.(*ssa.Store); ok && st.Val == ev {
				if cell := cellOf(st.Addr); cell != nil {
					for _, ld := range cellLoads(cell) {
						for _, rr := range returnsOf(ld.Parent()) {
							if len(rr.Results) > 0 && rr.Results[len(rr.Results)-1] == ssa.Value(ld) {
								directly = true
							}
						}
						pn := edgesWhere(ld.Parent(), func(a Atom, holds bool) bool { return a.Kind == "nil" && !holds && strip(a.X) == ssa.Value(ld) })
						if len(pn) > 0 && ld.Parent() == f {
							for e := range pn {
								nonNil[e] = true
							}
						}
					}
				}
			}
		}
	}
	if directly && len(nonNil) == 0 {
		return true, "error returned directly"
	}
	if len(nonNil) == 0 {
		if directly {
			return true, "error returned directly"
		}
		return false, "its error value is neither returned nor tested"
	}
	// the error is looked at before anything else is concluded: from the call, no return that can report success is
	// reachable without crossing one of the edges on which the error was tested (`if chosen == nil { return noReady }`
	// placed before `if err != nil` turns every failure - lock busy, unreadable log - into a success)
	if cv.Block() != nil && len(nonNil) > 0 {
		tested := map[edge]bool{}
		for e := range nonNil {
			tested[e] = true
			tested[edge{e.From, 1 - e.Succ}] = true
		}
		// errors.Is / errors.As on this error are tests too (sentinel conversions)
		for _, bf := range branchFacts(f) {
			if bf.A.Kind != "bool" || len(bf.A.Env) > 0 {
				continue
			}
			if cl, _ := callOf(bf.A.X); cl != nil {
				if n := calleeFullName(&cl.Call); (n == "errors.Is" || n == "errors.As") && len(cl.Call.Args) > 0 && (strip(cl.Call.Args[0]) == ev || holdsValue(cl.Call.Args[0], ev)) {
					tested[bf.E] = true
				}
			}
		}
		// err == errSentinel (identity comparison with a package-level sentinel) is a test of this error as well
		for _, bf := range branchFacts(f) {
			if bf.A.Kind == "cmp" && bf.A.Op == token.EQL && len(bf.A.Env) == 0 && sentinelCompare(bf.A, ev) != nil {
				tested[bf.E] = true
			}
		}
		region := reach(cv.Block(), tested, nil)
		for _, r := range returnsOf(f) {
			if !region[r.Block()] || r.Block().Comment == "recover" || len(r.Results) == 0 {
				continue
			}
			if r.Block() == cv.Block() && instrIndex(r) < instrIndex(cv) {
				continue
			}
			if !canReachInstr(cv, r) {
				continue
			}
			if c.definitelyFails(f, r) || derives(r) {
				continue
			}
			v := returnedValue(r, len(r.Results)-1)
			if strip(v) == ev || holdsValue(v, ev) {
				continue // hands the error itself back
			}
			return false, fmt.Sprintf("the return at %s can report success before the error was looked at: every failure of the call (lock busy, unreadable log, I/O error) is reported as success there", c.Pos(r.Pos()))
		}
	}
	// every return reachable from the non-nil edges must be a failure (an error that is definitely non-nil: derived
	// from this one, freshly built, a sentinel, or another call's error on its own non-nil edge), except the recognised
	// sentinel conversion; a successful retry of the same operation (nil edge of another call to the same callee)
	// legitimately leads on to success.
	retryOK := edgesWhere(f, func(a Atom, holds bool) bool {
		if a.Kind != "nil" || !holds {
			return false
		}
		cl, _ := callOf(a.X)
		if cl != nil && cl != cv && calleeFullName(&cl.Call) == calleeFullName(&cv.Call) {
			return true
		}
		// `fd, err = open(...)` a second time into the same variables: the test is on the merge of this error and the
		// retry's. Where the merge carries this error it is not nil (we are on its non-nil edge), so its nil edge means
		// the retry succeeded
		var merged []ssa.Value
		if ph, ok := strip(a.X).(*ssa.Phi); ok {
			merged = ph.Edges
		} else if ld, ok := strip(a.X).(*ssa.UnOp); ok {
			// the same through a variable cell (a named result): the assignments that can reach the tested load
			if vals, ok := reachingStoreVals(ld); ok && len(vals) > 1 {
				merged = vals
			}
		}
		if merged != nil {
			sawRetry := false
			for _, pe := range merged {
				pe = strip(pe)
				if pe == ev || holdsValue(pe, ev) {
					continue
				}
				if c2, _ := callOf(pe); c2 != nil && c2 != cv && calleeFullName(&c2.Call) == calleeFullName(&cv.Call) {
					sawRetry = true
					continue
				}
				return false
			}
			return sawRetry
		}
		return false
	})
	definitelyFails := func(r *ssa.Return) bool {
		if derives(r) {
			return true
		}
		srcs := errorSourceValues(r)
		if len(srcs) == 0 {
			return false
		}
		for _, sv := range srcs {
			switch x := sv.(type) {
			case *ssa.Call:
				n := calleeFullName(&x.Call)
				if n == "errors.New" || n == "fmt.Errorf" {
					continue
				}
				// another call's error: fine when this return lies on that call's non-nil edge
				if mustPassEdges(f, r.Block(), nonNilErrEdges(f, x)) {
					continue
				}
				return false
			case *ssa.UnOp:
				if g, ok := x.X.(*ssa.Global); ok && isSentinelErrorVar(g) {
					continue
				}
				return false
			default:
				return false
			}
		}
		return true
	}
	// a later success of this very call (the loop comes round again) also leads on to success legitimately
	selfOK := edgesWhere(f, func(a Atom, holds bool) bool {
		return a.Kind == "nil" && holds && (strip(a.X) == ev || holdsValue(strip(a.X), ev))
	})
	for e := range nonNil {
		region := reach(e.To(), retryOK, nil)
		for _, r := range returnsOf(f) {
			if !region[r.Block()] || r.Block().Comment == "recover" {
				continue
			}
			// returns dominated by the non-nil edge belong to the error handling; a return the failure merely flows into
			// (`break` out of a loop to a shared `return err`) must hand back, on the edges the failure arrives over,
			// the error or something built from it
			if !mustPassEdges(f, r.Block(), nonNil) {
				if len(r.Results) == 0 {
					continue
				}
				both := map[edge]bool{}
				for k := range retryOK {
					both[k] = true
				}
				for k := range selfOK {
					both[k] = true
				}
				failRegion := reach(e.To(), both, nil)
				if !failRegion[r.Block()] {
					continue
				}
				var bad string
				seenV := map[ssa.Value]bool{}
				var chk func(v ssa.Value, at *ssa.BasicBlock, d int)
				chk = func(v ssa.Value, at *ssa.BasicBlock, d int) {
					if bad != "" || d > 6 {
						return
					}
					v = strip(v)
					if ph, ok := v.(*ssa.Phi); ok && !seenV[v] {
						seenV[v] = true
						for i, pe := range ph.Edges {
							pred := ph.Block().Preds[i]
							if failRegion[pred] || pred == e.From {
								chk(pe, pred, d+1)
							}
						}
						return
					}
					if v == ev || holdsValue(v, ev) || derivesFrom(v, ev) {
						return
					}
					if cl, ok := v.(*ssa.Call); ok {
						if n := calleeFullName(&cl.Call); n == "errors.New" || n == "fmt.Errorf" || n == "errors.Join" {
							return
						}
					}
					if u, ok := v.(*ssa.UnOp); ok {
						if g, ok := u.X.(*ssa.Global); ok && isSentinelErrorVar(g) {
							return
						}
						// a result variable: what was stored into it on the failure path
						if cell := cellOf(u.X); cell != nil {
							okStore := false
							for _, st := range cellStores(cell) {
								if st.Parent() == f && failRegion[st.Block()] && (strip(st.Val) == ev || derivesFrom(st.Val, ev)) {
									okStore = true
								}
							}
							if okStore {
								return
							}
						}
					}
					if isNilConst(v) {
						bad = "nil"
						return
					}
					if c.definitelyFails(f, r) {
						return
					}
					bad = c.canon(v)
				}
				chk(returnedValue(r, len(r.Results)-1), r.Block(), 0)
				if bad != "" {
					return false, fmt.Sprintf("a failure of the call flows into the return at %s, which hands back %s there (an error variable shadowed by := or never assigned?): the failure is reported as success", c.Pos(r.Pos()), bad)
				}
				continue
			}
			if definitelyFails(r) {
				continue
			}
			if c.sentinelConversion(f, cv, ev, r) {
				continue
			}
			// `return op(...)`: a retry of the same operation whose own outcome becomes the result
			if len(r.Results) > 0 {
				if cl, _ := callOf(returnedValue(r, len(r.Results)-1)); cl != nil && cl != cv && calleeFullName(&cl.Call) == calleeFullName(&cv.Call) {
					continue
				}
			}
			return false, fmt.Sprintf("on its non-nil edge the return at %s does not report a failure", c.Pos(r.Pos()))
		}
	}
	return true, "error tested; every path on the non-nil edge fails (or succeeds only after a successful retry)"
}

// sentinelConversion: the return is guarded by err.Error() == C where C is the text of an errors.New(C) inside a
// lock callback of f, the call is the lock primitive, and the sentinel return in the callback happens before any commit.
func (c *Ctx) sentinelConversion(f *ssa.Function, cv *ssa.Call, ev ssa.Value, r *ssa.Return) bool {
	if !c.F.isLockFn(calleeOf(&cv.Call)) {
		return false
	}
	var cb *ssa.Function
	for _, ls := range c.F.LockSites {
		if ls.Call == ssa.CallInstruction(cv) {
			cb = ls.Callback
		}
	}
	if cb == nil {
		return false
	}
	// form 2: errors.Is(err, sentinel) with a package-level sentinel that the critical section returns only before it commits
	commitSet := c.commitFuncs()
	for _, bf := range branchFacts(f) {
		curEnv = bf.A.Env
		var g *ssa.Global
		switch {
		case bf.A.Kind == "bool" && bf.Holds:
			cl, _ := callOf(bf.A.X)
			if cl == nil || calleeFullName(&cl.Call) != "errors.Is" || len(cl.Call.Args) != 2 || strip(cl.Call.Args[0]) != ev {
				continue
			}
			ld, ok := strip(cl.Call.Args[1]).(*ssa.UnOp)
			if !ok || ld.Op != token.MUL {
				continue
			}
			if g, ok = ld.X.(*ssa.Global); !ok {
				continue
			}
		case bf.A.Kind == "cmp" && bf.A.Op == token.EQL && bf.Holds:
			// err == errSentinel
			if g = sentinelCompare(bf.A, ev); g == nil {
				continue
			}
		default:
			continue
		}
		if !(bf.E.To() == r.Block() || bf.E.To().Dominates(r.Block())) {
			continue
		}
		returned, afterCommit := false, false
		for _, uf := range append([]*ssa.Function{cb}, c.unitOf(cb)...) {
			for _, ret := range returnsOf(uf) {
				if len(ret.Results) == 0 {
					continue
				}
				rv, ok := strip(returnedValue(ret, len(ret.Results)-1)).(*ssa.UnOp)
				if !ok || rv.Op != token.MUL || rv.X != ssa.Value(g) {
					continue
				}
				returned = true
				for _, cc := range callsIn(uf) {
					if cal := calleeOf(cc.Common()); cal != nil && commitSet[cal] && canReachInstr(cc, ret) {
						afterCommit = true
					}
				}
			}
		}
		if returned && !afterCommit {
			curEnv = nil
			return true
		}
	}
	for _, bf := range branchFacts(f) {
		curEnv = bf.A.Env
		if bf.A.Kind != "const" || !bf.Holds || bf.A.C.Value == nil || bf.A.C.Value.Kind() != constant.String {
			continue
		}
		cl, _ := callOf(bf.A.X)
		if cl == nil || !cl.Call.IsInvoke() || cl.Call.Method.Name() != "Error" || strip(cl.Call.Value) != ev {
			continue
		}
		if !(bf.E.To() == r.Block() || bf.E.To().Dominates(r.Block())) {
			continue
		}
		text := constant.StringVal(bf.A.C.Value)
		// the sentinel is created in the callback
		for _, call := range callsNamed(cb, "errors.New") {
			if s, ok := constString(call.Common().Args[0]); ok && s == text {
				// and no storage effect precedes it: the sentinel return is not after a commit
				commit := c.commitFuncs()
				after := false
				for _, cc := range callsIn(cb) {
					if cal := calleeOf(cc.Common()); cal != nil && commit[cal] && canReachInstr(cc, call) {
						after = true
					}
				}
				if !after {
					return true
				}
			}
		}
	}
	return false
}

// sentinelCompare: the atom compares ev with (a load of) a package-level sentinel error variable; returns the variable.
func sentinelCompare(a Atom, ev ssa.Value) *ssa.Global {
	isEv := func(v ssa.Value) bool { v = strip(v); return v == ev || holdsValue(v, ev) }
	glob := func(v ssa.Value) *ssa.Global {
		if ld, ok := strip(v).(*ssa.UnOp); ok && ld.Op == token.MUL {
			if g, ok := ld.X.(*ssa.Global); ok && isSentinelErrorVar(g) {
				return g
			}
		}
		return nil
	}
	if a.Y == nil {
		return nil
	}
	if isEv(a.X) {
		return glob(a.Y)
	}
	if isEv(a.Y) {
		return glob(a.X)
	}
	return nil
}

// ------------------------------------------------------------------ OU3

func (c *Ctx) fieldStoresOfType(f *ssa.Function, typeName string) map[string][]ssa.Value {
	out := map[string][]ssa.Value{}
	// the function, its closures, and the module helpers they call that build a value of the type (a reply assembled in
	// a helper is the reply all the same); a helper's parameters are read through its only call site
	unit := append([]*ssa.Function{f}, Closures(f)...)
	inUnit := map[*ssa.Function]bool{}
	for _, g := range unit {
		inUnit[g] = true
	}
	for i, d := 0, 0; i < len(unit) && d < 64; i, d = i+1, d+1 {
		for _, call := range callsIn(unit[i]) {
			h := calleeOf(call.Common())
			if h == nil || inUnit[h] || !c.InModule(h) || h.Blocks == nil || c.opaqueHelper(h) {
				continue
			}
			builds := false
			res := h.Signature.Results()
			for k := 0; k < res.Len(); k++ {
				if namedTypeName(res.At(k).Type()) == typeName {
					builds = true
				}
			}
			if builds {
				inUnit[h] = true
				unit = append(unit, h)
				for _, cl := range Closures(h) {
					inUnit[cl] = true
					unit = append(unit, cl)
				}
			}
		}
	}
	for _, g := range unit {
		var e env
		if g != f && g.Parent() == nil {
			e = c.autoEnv(g)
		}
		eachInstr(g, func(r instrRef) {
			st, ok := r.In.(*ssa.Store)
			if !ok {
				return
			}
			fa, ok := st.Addr.(*ssa.FieldAddr)
			if !ok {
				return
			}
			// the embedded struct filled as a literal of its own and stored whole (*(&out.header) = *(&hdrLiteral))
			if namedTypeName(fa.X.Type()) == typeName && embeddedField(fa.X.Type(), fa.Field) {
				if ld, isLoad := st.Val.(*ssa.UnOp); isLoad && ld.Op == token.MUL {
					if lit, isAlloc := ld.X.(*ssa.Alloc); isAlloc && lit.Referrers() != nil {
						for _, lr := range *lit.Referrers() {
							lfa, ok := lr.(*ssa.FieldAddr)
							if !ok || lfa.Referrers() == nil {
								continue
							}
							for _, u := range *lfa.Referrers() {
								if ls, ok := u.(*ssa.Store); ok && ls.Addr == ssa.Value(lfa) {
									v := ls.Val
									if e != nil {
										v = resolveEnv(v, e)
									}
									n := fieldName(lfa.X.Type(), lfa.Field)
									out[n] = append(out[n], v)
								}
							}
						}
					}
				}
				return
			}
			if namedTypeName(fa.X.Type()) != typeName {
				// a field of a struct embedded in the reply type (createOutput{entityHeaderOutput{ID: ...}}): promoted
				outer, isNested := fa.X.(*ssa.FieldAddr)
				if !isNested || namedTypeName(outer.X.Type()) != typeName || !embeddedField(outer.X.Type(), outer.Field) {
					return
				}
			}
			n := fieldName(fa.X.Type(), fa.Field)
			v := st.Val
			if e != nil {
				v = resolveEnv(v, e)
			}
			out[n] = append(out[n], v)
		})
	}
	return out
}

// autoEnv binds the parameters of fn (and, transitively, of its callers) to the arguments of their only static call
// site: values inside a single-caller helper are then expressed in the frame of the function that uses the helper.
func (c *Ctx) autoEnv(fn *ssa.Function) env {
	e := env{}
	for hops := 0; fn != nil && hops < 4; hops++ {
		f := fn
		if f.Parent() != nil {
			fn = f.Parent()
			continue
		}
		sites := c.callers[f]
		if len(sites) != 1 || Outermost(sites[0].Fn).Pkg != f.Pkg {
			break // several callers, or a command entry point called from package main: its parameters are the frame
		}
		for i, prm := range f.Params {
			if i < len(sites[0].Call.Common().Args) {
				if _, bound := e[prm]; !bound {
					e[prm] = sites[0].Call.Common().Args[i]
				}
			}
		}
		fn = sites[0].Fn
	}
	return e
}

func ruleOU3(c *Ctx) {
	re := c.F.Anchors["replayEvents"]
	commit := c.commitFuncs()
	ems := c.emissions()
	// --- create: createOutput vs the create event
	if ctd := c.anchor("createTaskWithDir"); ctd != nil {
		var cb *ssa.Function
		for _, ls := range c.F.LockSites {
			if ls.Fn == ctd {
				cb = ls.Callback
			}
		}
		var ev *Emission
		for _, em := range ems {
			if em.Fn == cb && (em.has("new_task") || em.has("new_epic")) {
				ev = em
			}
		}
		if cb == nil || ev == nil {
			c.bad(c.Name(ctd), "create-reply", c.FnPos(ctd), "create callback or its create event not found")
		} else {
			out := c.fieldStoresOfType(ctd, "ergo.createOutput")
			fn := c.Name(cb)
			for _, pair := range [][2]string{{"ID", "ID"}, {"UUID", "UUID"}, {"Title", "Title"}, {"Body", "Body"}, {"CreatedAt", "CreatedAt"}, {"EpicID", "EpicID"}} {
				vals := out[pair[0]]
				ok := len(vals) > 0
				for _, v := range vals {
					match := false
					for _, evv := range append(ev.Stores[pair[1]], ev.Fields[pair[1]]) {
						if evv != nil && c.canon(v) == c.canon(evv) {
							match = true
						}
					}
					// read back from the payload variable itself
					if !match {
						if b, n, okf := fieldLoad(resolve(v)); okf && n == pair[1] && ev.Lit != nil && resolve(b) == ssa.Value(ev.Lit) {
							match = true
						}
					}
					if !match && c.currentItemRead(v, pair[1], cb, commit) {
						match = true // the answer of a path that commits nothing: the stored item's own field, read under the lock
					}
					if !match {
						ok = false
					}
				}
				c.check(ok, fn, "create-reply|"+pair[0], c.Pos(ev.Call.Pos()), "reply."+pair[0]+" is the committed event's "+pair[1], "the create reply's "+pair[0]+" is not the value stored in the committed create event")
			}
			// State / ClaimedBy: constant of the payload, or read off replayEvents(events) of the events being appended
			var committed ssa.Value
			for _, call := range callsIn(cb) {
				if cal := calleeOf(call.Common()); cal != nil && commit[cal] && len(call.Common().Args) >= 2 {
					committed = call.Common().Args[1]
				}
			}
			// when the command can append update events to the creation, both fields must be read off the replay
			anyReplay := false
			for _, fl := range []string{"State", "ClaimedBy"} {
				for _, v := range out[fl] {
					if c.hasReplayEdge(v, re) {
						anyReplay = true
					}
				}
			}
			for _, fl := range []string{"State", "ClaimedBy"} {
				ok := len(out[fl]) > 0
				why := ""
				for _, v := range out[fl] {
					if c.currentItemRead(v, fl, cb, commit) {
						continue
					}
					if !c.replyStateOK(v, fl, ev, re, committed) {
						ok = false
						why = c.canon(v)
						continue
					}
					if anyReplay && !c.hasReplayEdge(v, re) {
						ok = false
						why = "the sibling field is read off the replay of the committed events but this one stays the creation constant"
					}
				}
				c.check(ok, fn, "create-reply|"+fl, c.Pos(ev.Call.Pos()), "reply."+fl+" is the created value or is read off a replay of exactly the events being committed", "the create reply's "+fl+" ("+why+") is neither the committed constant nor read off a replay of the committed events: the reply can contradict the next read")
			}
		}
	}
	// --- oldest-ready claim: reply map vs claim/state events
	if rco := c.ErgoFn("RunClaimOldestReady"); rco != nil {
		var cb *ssa.Function
		rcoUnit := map[*ssa.Function]bool{rco: true}
		for _, g := range c.unitOf(rco) {
			rcoUnit[g] = true
		}
		for _, ls := range c.F.LockSites {
			if ls.Fn == rco || rcoUnit[Outermost(ls.Fn)] && cb == nil {
				cb = ls.Callback // the locked step may live in a private helper (claimOldestReadyOnce) run through a retry wrapper
			}
		}
		var claimEv, stateEv *Emission
		inSection := map[*ssa.Function]bool{}
		if cb != nil {
			inSection[cb] = true
			for _, g := range c.unitOf(cb) {
				inSection[g] = true
			}
		}
		for _, em := range ems {
			if inSection[em.Fn] && em.has("claim") {
				claimEv = em
			}
			if inSection[em.Fn] && em.has("state") {
				stateEv = em
			}
		}
		if cb == nil || claimEv == nil || stateEv == nil {
			c.bad(c.Name(rco), "claim-reply", c.FnPos(rco), "claim callback or its claim/state events not found")
		} else {
			// the reply: a map with constant keys, or a struct with json tags, built in the command or a helper of its own
			type rv struct {
				v ssa.Value
				e env
			}
			reply := map[string]rv{}
			wj := c.F.Anchors["writeJSON"]
			var gather func(v ssa.Value, e env, d int)
			gather = func(v ssa.Value, e env, d int) {
				if v == nil || d > 3 {
					return
				}
				if mi, ok := v.(*ssa.MakeInterface); ok {
					v = mi.X
				}
				v = resolveEnv(v, e)
				switch x := v.(type) {
				case *ssa.MakeMap:
					if x.Referrers() == nil {
						return
					}
					for _, r := range *x.Referrers() {
						if mu, ok := r.(*ssa.MapUpdate); ok {
							if k, ok := constString(mu.Key); ok {
								reply[k] = rv{mu.Value, e}
							}
						}
					}
				case *ssa.UnOp:
					// a struct literal with json tags, loaded as a whole
					al, ok := x.X.(*ssa.Alloc)
					if !ok || x.Op != token.MUL || al.Referrers() == nil {
						return
					}
					str, ok := al.Type().Underlying().(*types.Pointer).Elem().Underlying().(*types.Struct)
					if !ok {
						return
					}
					for _, r := range *al.Referrers() {
						fa, ok := r.(*ssa.FieldAddr)
						if !ok || fa.Referrers() == nil || fa.Field >= str.NumFields() {
							continue
						}
						tag := reflect.StructTag(str.Tag(fa.Field)).Get("json")
						if i := strings.Index(tag, ","); i >= 0 {
							tag = tag[:i]
						}
						if tag == "" || tag == "-" {
							continue
						}
						for _, u := range *fa.Referrers() {
							if st, ok := u.(*ssa.Store); ok && st.Addr == ssa.Value(fa) {
								reply[tag] = rv{st.Val, e}
							}
						}
					}
				case *ssa.Call:
					h := calleeOf(&x.Call)
					if h == nil || h.Blocks == nil || !c.InModule(h) {
						return
					}
					e2 := env{}
					for k, val := range e {
						e2[k] = val
					}
					for i, prm := range h.Params {
						if i < len(x.Call.Args) {
							e2[prm] = resolveEnv(x.Call.Args[i], e)
						}
					}
					for _, r := range returnsOf(h) {
						if len(r.Results) == 1 {
							gather(returnedValue(r, 0), e2, d+1)
						}
					}
				}
			}
			for _, g := range append([]*ssa.Function{rco}, c.unitOf(rco)...) {
				if inSection[g] {
					continue
				}
				for _, call := range callsTo(g, wj) {
					if len(call.Common().Args) >= 2 {
						gather(call.Common().Args[1], c.autoEnv(g), 0)
					}
				}
				// a reply printer shared with other commands (writeClaimReply(opts, task, state, agent, at)): the value it
				// hands to writeJSON, with its parameters bound to this command's arguments
				for _, call := range callsIn(g) {
					h := calleeOf(call.Common())
					if h == nil || h == wj || !c.InModule(h) || h.Blocks == nil || inSection[h] || len(callsTo(h, wj)) == 0 {
						continue
					}
					skip := false
					for _, u := range c.unitOf(rco) {
						if u == h {
							skip = true // visited as part of the unit
						}
					}
					if skip || h == rco {
						continue
					}
					ge := c.autoEnv(g)
					e2 := env{}
					for k, val := range ge {
						e2[k] = val
					}
					for i, prm := range h.Params {
						if i < len(call.Common().Args) {
							e2[prm] = resolveEnv(call.Common().Args[i], ge)
						}
					}
					for _, wcall := range callsTo(h, wj) {
						if len(wcall.Common().Args) >= 2 {
							gather(wcall.Common().Args[1], e2, 1)
						}
					}
				}
			}
			// values are compared in the frame of the command: parameters of single-caller helpers are bound to their arguments
			canonAt := func(v ssa.Value, fn *ssa.Function) string { return c.Prog.canonE(v, c.autoEnv(fn)) }
			// a field computed inside a constructor helper (TS: formatTime(ts)) is read with the helper's parameters
			// bound to what this site handed it
			canonEm := func(v ssa.Value, ev *Emission) string {
				if len(ev.Env) == 0 {
					return canonAt(v, ev.Fn)
				}
				e := env{}
				ae := c.autoEnv(ev.Fn)
				for k, val := range ae {
					e[k] = val
				}
				for k, val := range ev.Env {
					e[k] = resolveEnv(val, ae)
				}
				return c.Prog.canonE(v, e)
			}
			chk := func(key string, evv ssa.Value, ev *Emission, what string) {
				r := reply[key]
				ok := r.v != nil && evv != nil && (c.Prog.canonE(r.v, r.e) == canonAt(evv, ev.Fn) || c.Prog.canonE(r.v, r.e) == canonEm(evv, ev))
				if !ok && r.v != nil && evv != nil {
					// a batch (`claim --count N`): the events are built for every element of a slice, front to back, and the
					// reply reports the same field of element 0, or of every element, of that same slice
					rs, rf, ri := elemFieldOf(resolveEnv(r.v, r.e))
					ee := env{}
					for k, val := range c.autoEnv(ev.Fn) {
						ee[k] = val
					}
					for k, val := range ev.Env {
						ee[k] = resolveEnv(val, c.autoEnv(ev.Fn))
					}
					es, ef, ei := elemFieldOf(resolveEnv(evv, ee))
					if rs != nil && es != nil && rf == ef && ei == "range" && (ri == "0" || ri == "range") &&
						c.Prog.canonE(rs, r.e) == c.Prog.canonE(es, ee) {
						ok = true
					}
				}
				c.check(ok, c.Name(rco), "claim-reply|"+key, c.FnPos(rco), "reply["+key+"] is the committed "+what, "the claim reply's "+key+" is not the value committed in the "+what+": the agent is told it won something the store does not record")
			}
			chk("id", claimEv.Fields["ID"], claimEv, "claim event's ID")
			chk("agent_id", claimEv.Fields["AgentID"], claimEv, "claim event's AgentID")
			chk("state", stateEv.Fields["NewState"], stateEv, "state event's NewState")
			chk("claimed_at", claimEv.Fields["TS"], claimEv, "claim event's TS")
			c.check(canonAt(claimEv.Fields["ID"], claimEv.Fn) == canonAt(stateEv.Fields["ID"], stateEv.Fn), c.Name(cb), "claim-reply|same-task", c.Pos(claimEv.Call.Pos()), "claim and state events name the same task", "the claim event and the state event name different tasks")
		}
	}
	// --- set / claim <id>: reply read off the post-state computed under the lock
	if asu := c.ErgoFn("applySetUpdates"); asu != nil {
		var cb *ssa.Function
		for _, ls := range c.F.LockSites {
			if ls.Fn == asu {
				cb = ls.Callback
			}
		}
		if cb != nil && re != nil && asu.Signature.Results().Len() > 1 {
			// returned task derives from replayEvents(append(existing, events...)) with events = the committed slice
			var committed ssa.Value
			var commitCall ssa.CallInstruction
			for _, call := range callsIn(cb) {
				if cal := calleeOf(call.Common()); cal != nil && commit[cal] && len(call.Common().Args) >= 2 {
					committed, commitCall = call.Common().Args[1], call
				}
			}
			ok := false
			why := "returned item is not read off a replay"
			for _, r := range returnsOf(asu) {
				if len(r.Results) < 2 || isNilConst(r.Results[0]) {
					continue
				}
				ok, why = c.derivesFromReplayOf(r.Results[0], re, committed)
				if ok && commitCall != nil {
					// the replay happens before the commit (its failure leaves the store untouched)
					for _, rc := range callsTo(cb, re) {
						if valueDerivesFromCallToInstr(r.Results[0], rc) && !instrDominates(rc, commitCall) {
							ok, why = false, "the post-state replay runs after the commit"
						}
					}
				}
			}
			c.check(ok, c.Name(asu), "set-reply|post-state", c.FnPos(asu), "the item handed back for the reply is read off replayEvents(existing ++ events being committed), computed before the commit", why)
			// callers build their reply from it
			for i, cs := range c.callers[asu] {
				cvv, isC := cs.Call.(*ssa.Call)
				if !isC {
					continue
				}
				used := false
				stale := ""
				f := cs.Fn
				for _, g := range append([]*ssa.Function{f}, Closures(f)...) {
					_ = g
				}
				outs := c.fieldStoresOfType(f, "ergo.setOutput")
				for _, fl := range []string{"State", "ClaimedBy"} {
					for _, v := range outs[fl] {
						vin, isIn := v.(ssa.Instruction)
						if isIn && vin.Parent() != nil && Outermost(vin.Parent()) != Outermost(f) {
							// assembled in a shared helper (buildSetOutput(id, fields, task)): judged at the helper's call
							// sites in this command, through the parameter the value is read from
							h := Outermost(vin.Parent())
							for _, cs2 := range c.callers[h] {
								if Outermost(cs2.Fn) != Outermost(f) || !canReachInstr(cvv, cs2.Call) {
									continue
								}
								fromItem := false
								for pi, prm := range h.Params {
									if pi < len(cs2.Call.Common().Args) && derivesFromLocal(v, prm) {
										if valueDerivesFromCallToInstr(cs2.Call.Common().Args[pi], cvv) {
											fromItem = true
										} else {
											stale = fl + " = " + c.canon(cs2.Call.Common().Args[pi]) + " (handed to " + c.Name(h) + ")"
										}
									}
								}
								if fromItem {
									used = true
								} else if stale == "" {
									stale = fl + " = " + c.canon(v)
								}
							}
							continue
						}
						if valueDerivesFromCallToInstr(v, cvv) {
							used = true
						} else if isIn && canReachInstr(cvv, vin) {
							stale = fl + " = " + c.canon(v)
						}
					}
				}
				if len(outs) == 0 {
					// map-literal reply (claim <id>)
					eachInstr(f, func(r instrRef) {
						if mu, ok := r.In.(*ssa.MapUpdate); ok {
							if _, isMI := mu.Value.(*ssa.MakeInterface); !isMI {
								return
							}
							if k, ok := constString(mu.Key); ok && (k == "state" || k == "id") {
								if valueDerivesFromCallToInstr(mu.Value, cvv) {
									used = true
								} else {
									stale = k + " = " + c.canon(mu.Value)
								}
							}
						}
					})
				}
				if len(outs) == 0 && !used && stale == "" {
					continue // caller builds no reply from the item (create path)
				}
				c.check(used && stale == "", c.Name(f), fmt.Sprintf("set-reply|from-post-state#%d", i+1), c.Pos(cs.Call.Pos()), "reply state/claimant come from the post-state returned by applySetUpdates", "reply field "+stale+" does not come from the post-state computed under the lock")
			}
		} else {
			c.ok(c.Name(asu), "set-reply|post-state", c.FnPos(asu), "applySetUpdates hands back no item; replies are checked by VD1 (re-read after commit)")
		}
	}
	// --- replies echo the ids the command was given, so the committing step must work on exactly those ids: a key
	// looked up in graph.Tasks / graph.Tombstones that is computed from the given id (trimmed, upper-cased, resolved
	// through a helper) records events under another id than the reply names. (A command that answers with the ids of
	// the post-state it is handed back is free to normalise.)
	for _, name := range []string{"applySetUpdates", "writeLinkEvents"} {
		f := c.ErgoFn(name)
		if f == nil {
			continue
		}
		var cb *ssa.Function
		for _, ls := range c.F.LockSites {
			if ls.Fn == f {
				cb = ls.Callback
			}
		}
		if cb == nil {
			continue
		}
		// replies built from the post-state: every caller's reply id fields are read off this function's result
		fromPost := true
		nReply := 0
		for _, cs := range c.callers[f] {
			cvv, isC := cs.Call.(*ssa.Call)
			if !isC {
				continue
			}
			for _, typ := range []string{"ergo.setOutput", "ergo.sequenceEdgeOutput"} {
				outs := c.fieldStoresOfType(cs.Fn, typ)
				for _, fl := range []string{"ID", "FromID", "ToID"} {
					for _, v := range outs[fl] {
						nReply++
						if !valueDerivesFromCallToInstr(v, cvv) {
							fromPost = false
						}
					}
				}
			}
		}
		if nReply > 0 && fromPost {
			c.ok(c.Name(f), "reply-ids|from-post-state", c.FnPos(f), "every reply id is read off the state this function hands back")
			continue
		}
		k := 0
		seenFn := map[*ssa.Function]bool{}
		for _, g := range append([]*ssa.Function{cb}, c.unitOf(cb)...) {
			if seenFn[g] {
				continue
			}
			seenFn[g] = true
			eachInstr(g, func(r instrRef) {
				lk, ok := r.In.(*ssa.Lookup)
				if !ok {
					return
				}
				n, isG := graphFieldOf(lk.X, 0)
				if !isG || (n != "Tasks" && n != "Tombstones") {
					return
				}
				if _, isConst := lk.Index.(*ssa.Const); isConst {
					return
				}
				tf := &textFlow{c: c, field: "id", seen: map[ssa.Value]bool{}}
				tf.walk(lk.Index, 0)
				k++
				c.check(len(tf.problems) == 0, c.Name(g), fmt.Sprintf("reply-ids|lookup-key-verbatim#%d", k), c.Pos(lk.Pos()),
					"the id looked up is the id given (copied, never recomputed)",
					"the id looked up in graph."+n+" is computed from the id the command was given - "+strings.Join(uniq(tf.problems), "; ")+" - so events are recorded under an id the reply, which echoes what was typed, does not name")
			})
		}
	}
	// --- sequence: reply edges are the committed edges
	if rs := c.ErgoFn("RunSequence"); rs != nil {
		var wl ssa.CallInstruction
		for _, call := range callsIn(rs) {
			if cal := calleeOf(call.Common()); cal != nil && c.InModule(cal) && commit[cal] {
				wl = call
			}
		}
		// every requested edge is recorded (or the command fails): in the committing helper's loop over the edges no
		// iteration can move on to the next edge without passing the link emission - the reply lists the requested edges
		if wl != nil {
			if wf := calleeOf(wl.Common()); wf != nil {
				scope := map[*ssa.Function]bool{wf: true}
				for _, g := range c.unitOf(wf) {
					scope[g] = true
				}
				for _, g := range Closures(wf) {
					scope[g] = true
				}
				n := 0
				for _, em := range ems {
					if !scope[em.Fn] || !(em.has("link") || em.has("unlink")) {
						continue
					}
					hdr := enclosingLoopHeader(em.Call.Block())
					if hdr == nil {
						continue
					}
					n++
					body := loopBlocks(hdr)
					skip := false
					for _, succ := range hdr.Succs {
						if !body[succ] || succ == em.Call.Block() {
							continue
						}
						if reach(succ, nil, map[*ssa.BasicBlock]bool{em.Call.Block(): true})[hdr] {
							skip = true
						}
					}
					c.check(!skip, c.Name(em.Fn), fmt.Sprintf("sequence-reply|every-edge-recorded#%d", n), c.Pos(em.Call.Pos()), "each requested edge reaches the emission or fails the command",
						"an iteration of the edge loop can continue with the next edge without recording this one: the reply (built from the requested edges) reports an edge the log does not contain")
				}
			}
		}
		ok := false
		if wl != nil {
			// the slice passed to the committing call is the slice the reply loop indexes
			var edgesArg ssa.Value
			for _, a := range wl.Common().Args {
				if strings.Contains(a.Type().String(), "sequenceEdge") {
					edgesArg = a
				}
			}
			outs := c.fieldStoresOfType(rs, "ergo.sequenceEdgeOutput")
			okF, okT := false, false
			fromEdges := func(b ssa.Value, src ssa.Value) bool { return src != nil && derivesFrom(b, resolve(src)) }
			for _, v := range outs["FromID"] {
				if b, n, okf := fieldLoad(resolve(v)); okf && n == "FromID" && fromEdges(b, edgesArg) {
					okF = true
				}
			}
			for _, v := range outs["ToID"] {
				if b, n, okf := fieldLoad(resolve(v)); okf && n == "ToID" && fromEdges(b, edgesArg) {
					okT = true
				}
			}
			if len(outs) == 0 && edgesArg != nil {
				// the reply edges may be built by a helper from the same edge slice
				for _, call := range callsIn(rs) {
					h := calleeOf(call.Common())
					if h == nil || !c.InModule(h) || h.Blocks == nil || call == wl {
						continue
					}
					pi := -1
					for i, a := range call.Common().Args {
						if c.canon(a) == c.canon(edgesArg) {
							pi = i
						}
					}
					if pi < 0 || pi >= len(h.Params) {
						continue
					}
					houts := c.fieldStoresOfType(h, "ergo.sequenceEdgeOutput")
					for _, v := range houts["FromID"] {
						if b, n, okf := fieldLoad(resolve(v)); okf && n == "FromID" && derivesFrom(b, h.Params[pi]) {
							okF = true
						}
					}
					for _, v := range houts["ToID"] {
						if b, n, okf := fieldLoad(resolve(v)); okf && n == "ToID" && derivesFrom(b, h.Params[pi]) {
							okT = true
						}
					}
				}
			}
			ok = okF && okT
		}
		c.check(ok, c.Name(rs), "sequence-reply|edges", c.FnPos(rs), "reply edges are read from the same edge slice that was committed (from->from, to->to)", "the sequence reply's edges are not the committed edges")
	}
}

// replyStateOK: v is the payload's constant for the field, a value read off replayEvents(committed events), or a phi of those.
func (c *Ctx) replyStateOK(v ssa.Value, field string, ev *Emission, re *ssa.Function, committed ssa.Value) bool {
	v = resolve(v)
	if ph, ok := v.(*ssa.Phi); ok {
		for _, e := range ph.Edges {
			if !c.replyStateOK(e, field, ev, re, committed) {
				return false
			}
		}
		return true
	}
	if k, ok := v.(*ssa.Const); ok {
		want := ""
		if field == "State" {
			want = constStr(ev.Fields["State"])
		}
		return constStr(k) == want
	}
	ok, _ := c.derivesFromReplayOf(v, re, committed)
	if !ok {
		return false
	}
	_, n, okf := fieldLoad(v)
	return okf && n == field
}

// currentItemRead: v is the field `field` of a stored item (*Task) - possibly formatted by a one-argument helper - and is
// produced on a path of the critical section cb from which no commit is reachable: a reply that reports an existing item
// as it stands, under the lock, without writing. Fields of other records (the creation snapshot kept in TaskMeta for
// compaction) do not qualify.
func (c *Ctx) currentItemRead(v ssa.Value, field string, cb *ssa.Function, commit map[*ssa.Function]bool) bool {
	if cb == nil {
		return false
	}
	v = resolve(v)
	if cl, ok := v.(*ssa.Call); ok && len(cl.Call.Args) == 1 {
		if h := calleeOf(&cl.Call); h != nil && c.InModule(h) && !commit[h] {
			v = resolve(cl.Call.Args[0])
		}
	}
	base, n, ok := fieldLoad(v)
	if !ok || n != field || base == nil || namedTypeName(base.Type()) != "ergo.Task" {
		return false
	}
	in, isIn := v.(ssa.Instruction)
	if !isIn {
		return false
	}
	var anchors []*ssa.BasicBlock
	g := in.Parent()
	if g == cb {
		anchors = append(anchors, in.Block())
	} else {
		for _, call := range callsIn(cb) {
			if h := calleeOf(call.Common()); h != nil && (h == Outermost(g) || c.F.TransitiveCallees(h)[Outermost(g)]) {
				anchors = append(anchors, call.Block())
			}
		}
	}
	if len(anchors) == 0 {
		return false
	}
	for _, a := range anchors {
		for b := range reach(a, nil, nil) {
			for _, bi := range b.Instrs {
				if call, ok := bi.(ssa.CallInstruction); ok {
					if h := calleeOf(call.Common()); h != nil && commit[h] {
						return false
					}
				}
			}
		}
		for _, bi := range a.Instrs {
			if call, ok := bi.(ssa.CallInstruction); ok {
				if h := calleeOf(call.Common()); h != nil && commit[h] {
					return false
				}
			}
		}
	}
	return true
}

// derivesFromReplayOf: v is read off the result of replayEvents(X) where X is (or ends with) the committed events slice.
func (c *Ctx) derivesFromReplayOf(v ssa.Value, re *ssa.Function, committed ssa.Value) (bool, string) {
	if re == nil || committed == nil {
		return false, "replay or committed events not identified"
	}
	var found *ssa.Call
	viaHelper := false
	seen := map[ssa.Value]bool{}
	var walk func(x ssa.Value, d int)
	walk = func(x ssa.Value, d int) {
		if x == nil || d > 30 || seen[x] || found != nil || viaHelper {
			return
		}
		seen[x] = true
		if cl, ok := x.(*ssa.Call); ok && calleeOf(&cl.Call) == re {
			found = cl
			return
		}
		// result #i of a helper that also hands back the events it built as result #j, the ones being committed here:
		// inside the helper result #i must be read off a replay over result #j
		if ex, ok := x.(*ssa.Extract); ok {
			if cl, ok := ex.Tuple.(*ssa.Call); ok {
				if h := calleeOf(&cl.Call); h != nil && h != re && c.InModule(h) && h.Blocks != nil {
					if cex, ok := resolve(committed).(*ssa.Extract); ok && cex.Tuple == ex.Tuple {
						all, n := true, 0
						for _, r := range c.nonFailingReturns(h) {
							if r.Block().Comment == "recover" || len(r.Results) <= ex.Index || len(r.Results) <= cex.Index {
								continue
							}
							n++
							if ok, _ := c.derivesFromReplayOf(returnedValue(r, ex.Index), re, returnedValue(r, cex.Index)); !ok {
								all = false
							}
						}
						if n > 0 && all {
							viaHelper = true
						}
						return
					}
				}
			}
		}
		if u, ok := x.(*ssa.UnOp); ok && u.Op == token.MUL {
			if cell := cellOf(u.X); cell != nil {
				for _, st := range cellStores(cell) {
					walk(st.Val, d+1)
				}
			}
		}
		if in, ok := x.(ssa.Instruction); ok {
			for _, op := range in.Operands(nil) {
				if *op != nil {
					walk(*op, d+1)
				}
			}
		}
	}
	walk(v, 0)
	if viaHelper {
		return true, ""
	}
	if found == nil {
		return false, "value is not read off a replay"
	}
	arg := resolve(found.Call.Args[0])
	cc := c.canon(committed)
	if c.canon(arg) == cc {
		return true, ""
	}
	if ph, ok := resolve(committed).(*ssa.Phi); ok {
		for _, e := range ph.Edges {
			if c.canon(e) == c.canon(arg) {
				return true, ""
			}
		}
	}
	// append(existing[:n:n], committed...)
	if ap, ok := arg.(*ssa.Call); ok && calleeFullName(&ap.Call) == "builtin append" && len(ap.Call.Args) == 2 && c.canon(ap.Call.Args[1]) == cc {
		return true, ""
	}
	return false, "the replay is not over the events being committed (" + c.canon(arg) + " vs " + cc + ")"
}

// valueDerivesFromCallToInstr: v's backward slice contains the specific call instruction.
func valueDerivesFromCallToInstr(v ssa.Value, call ssa.CallInstruction) bool {
	cv, ok := call.(*ssa.Call)
	if !ok {
		return false
	}
	return derivesFrom(v, cv)
}

// hasReplayEdge: v (or one of its phi edges) is read off a call to replayEvents.
func (c *Ctx) hasReplayEdge(v ssa.Value, re *ssa.Function) bool {
	if re == nil {
		return false
	}
	v = resolve(v)
	if ph, ok := v.(*ssa.Phi); ok {
		for _, e := range ph.Edges {
			if c.hasReplayEdge(e, re) {
				return true
			}
		}
		return false
	}
	if _, isConst := v.(*ssa.Const); isConst {
		return false
	}
	return valueDerivesFromCallTo(v, re)
}

// derivesFromLocal: v is computed from src inside its own function (operands, loads of fields of src, local cells).
func derivesFromLocal(v, src ssa.Value) bool {
	seen := map[ssa.Value]bool{}
	var walk func(x ssa.Value, d int) bool
	walk = func(x ssa.Value, d int) bool {
		if x == nil || d > 30 || seen[x] {
			return false
		}
		if x == src {
			return true
		}
		seen[x] = true
		if u, ok := x.(*ssa.UnOp); ok {
			if cell := cellOf(u.X); cell != nil {
				for _, st := range cellStores(cell) {
					if walk(st.Val, d+1) {
						return true
					}
				}
			}
		}
		if in, ok := x.(ssa.Instruction); ok {
			for _, op := range in.Operands(nil) {
				if op != nil && *op != nil && walk(*op, d+1) {
					return true
				}
			}
		}
		return false
	}
	return walk(v, 0)
}

// embeddedField: field i of the (pointer to) struct type t is an embedded (anonymous) field.
func embeddedField(t types.Type, i int) bool {
	if pt, ok := t.Underlying().(*types.Pointer); ok {
		t = pt.Elem()
	}
	st, ok := t.Underlying().(*types.Struct)
	return ok && i < st.NumFields() && st.Field(i).Embedded()
}

// elemFieldOf: v reads field F of the element S[i] of a slice of pointers or structs ((*S[i]).F); idx is "0" for the
// constant 0, "range" for the element variable of a `for range S`, "" otherwise.
func elemFieldOf(v ssa.Value) (slice ssa.Value, field string, idx string) {
	base, name, ok := fieldLoad(v)
	if !ok || base == nil {
		return nil, "", ""
	}
	b := strip(base)
	// pointer element: the base is a load of &S[i]
	if u, ok := b.(*ssa.UnOp); ok && u.Op == token.MUL {
		b = u.X
	}
	ia, ok := b.(*ssa.IndexAddr)
	if !ok {
		return nil, "", ""
	}
	if i, isC := constInt(ia.Index); isC && i == 0 {
		idx = "0"
	} else if inc, ok := ia.Index.(*ssa.BinOp); ok && inc.Op == token.ADD {
		if ph, ok := inc.X.(*ssa.Phi); ok && rangeSliceOf(ph.Block()) == strip(ia.X) {
			idx = "range"
		}
	}
	return resolve(ia.X), name, idx
}
