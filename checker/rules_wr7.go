package main

// WR7: an error that was assigned to a variable is read before it is replaced.

import (
	"fmt"
	"strings"

	"golang.org/x/tools/go/ssa"
)

func init() {
	register(&Rule{ID: "WR7", Min: 1, Run: ruleWR7,
		Doc: "error-not-overwritten: in internal/ergo, no error result that the code assigned to a variable is dead — overwritten by the next assignment, or never read — before anything tested it (`_, err = io.Copy(h, f); info, err := f.Stat()`): the failure of the first call (a short read of the result file, a failed flush) would be reported as success. An explicit discard (`_ = f()`, `_, _ = f()`) is not an assignment and is judged by WR5 where the call is a storage effect"})
}

func ruleWR7(c *Ctx) {
	n, bad := 0, 0
	cnt := map[string]int{}
	for _, f := range c.Fns {
		if Outermost(f).Pkg != c.Ergo {
			continue
		}
		eachInstr(f, func(r instrRef) {
			ex, ok := r.In.(*ssa.Extract)
			if !ok || ex.Type().String() != "error" {
				return
			}
			cl, ok := ex.Tuple.(*ssa.Call)
			if !ok {
				return
			}
			n++
			used := false
			if refs := ex.Referrers(); refs != nil {
				for _, u := range *refs {
					if _, isDbg := u.(*ssa.DebugRef); !isDbg {
						used = true
					}
				}
			}
			if used {
				return
			}
			// `_, _ = io.WriteString(os.Stderr, ...)`: a diagnostic line whose failure is deliberately of no consequence
			if nme := calleeFullName(&cl.Call); (strings.HasPrefix(nme, "fmt.Fprint") || nme == "io.WriteString" || strings.HasPrefix(nme, "(*os.File).Write")) &&
				len(cl.Call.Args) > 0 && isGlobalLoad(cl.Call.Args[0], "Stderr") {
				return
			}
			bad++
			name := calleeFullName(&cl.Call)
			cnt[c.Name(f)+name]++
			c.bad(c.Name(f), fmt.Sprintf("dead-error %s#%d", name, cnt[c.Name(f)+name]), c.Pos(cl.Pos()),
				"the error of "+name+" is assigned but never read (overwritten before any test): its failure is silently reported as success")
		})
	}
	c.check(bad == 0, "<module>", "no-dead-error-values", "-", fmt.Sprintf("%d error values extracted from calls in internal/ergo, each of them read", n), fmt.Sprintf("%d error values are assigned and never read", bad))
}
