package main

// OU17: a slice expression with a constant bound is guarded by a length test of the value it slices.

import (
	"fmt"
	"go/constant"
	"go/token"
	"go/types"
	"strings"

	"golang.org/x/tools/go/ssa"
)

func init() {
	register(&Rule{ID: "OU17", Min: 1, Run: ruleOU17,
		Doc: "constant-bounds-are-guarded: every slice or index expression with a positive constant bound (x[:160], x[1:], x[0]) on a string or slice in the code the reading commands run (the log reader, the replay, what list and show call) is reachable only across an edge on which the length of that very value was compared with a constant that implies the bound (len(x) > 160 before x[:160]); a guard that measures something else - the byte length of the string while the rune slice made from it is cut, the length of a different variable - lets the expression panic on the inputs where the two measures differ, and a panic in a command that reads the log breaks `terminates with output or an error message naming file and line`. Values whose length is evident are exempt (literals, make with a constant length, arrays)"})
}

func ruleOU17(c *Ctx) {
	// the commands that only read: the log reader, the replay and what list/show call
	scope := map[*ssa.Function]bool{}
	for _, name := range []string{"readEvents", "replayEvents", "loadGraph", "RunList", "RunShow"} {
		if root := c.ErgoFn(name); root != nil {
			for g := range c.F.TransitiveCallees(root) {
				scope[g] = true
			}
		}
	}
	n := 0
	for _, f := range c.Fns {
		if Outermost(f).Pkg != c.Ergo || f.Blocks == nil || !scope[Outermost(f)] {
			continue
		}
		k := 0
		facts := directFacts(f)
		// lengthAtLeast: edges on which len(v) >= need is established
		guardEdges := func(v ssa.Value, need int64) map[edge]bool {
			out := map[edge]bool{}
			for _, bf := range facts {
				a := bf.A
				var lenCall *ssa.Call
				var other ssa.Value
				var op token.Token
				switch a.Kind {
				case "cmp":
					if cl, _ := callOf(a.X); cl != nil && calleeFullName(&cl.Call) == "builtin len" {
						lenCall, other, op = cl, a.Y, a.Op
					} else if cl, _ := callOf(a.Y); cl != nil && calleeFullName(&cl.Call) == "builtin len" {
						lenCall, other = cl, a.X
						switch a.Op {
						case token.LSS:
							op = token.GTR
						case token.LEQ:
							op = token.GEQ
						case token.GTR:
							op = token.LSS
						case token.GEQ:
							op = token.LEQ
						default:
							op = a.Op
						}
					}
				case "const":
					if cl, _ := callOf(a.X); cl != nil && calleeFullName(&cl.Call) == "builtin len" && a.C != nil {
						lenCall, other, op = cl, a.C, token.EQL
					}
				}
				if lenCall == nil || other == nil || len(lenCall.Call.Args) != 1 {
					continue
				}
				if resolve(lenCall.Call.Args[0]) != resolve(v) && c.canon(lenCall.Call.Args[0]) != c.canon(v) {
					continue
				}
				kc, ok := other.(*ssa.Const)
				if !ok || kc.Value == nil || kc.Value.Kind() != constant.Int {
					continue
				}
				kv, _ := constant.Int64Val(kc.Value)
				holds := bf.Holds
				establishes := false
				switch op {
				case token.GTR: // len > kv
					establishes = holds && kv+1 >= need || !holds && false
				case token.GEQ:
					establishes = holds && kv >= need
				case token.LSS: // len < kv ; false edge: len >= kv
					establishes = !holds && kv >= need
				case token.LEQ: // false edge: len > kv
					establishes = !holds && kv+1 >= need
				case token.EQL:
					// len == kv ; on the false edge of len == 0 the value is not empty
					establishes = holds && kv >= need || !holds && kv == 0 && need <= 1
				case token.NEQ:
					establishes = !holds && kv >= need || holds && kv == 0 && need <= 1
				}
				if establishes {
					out[bf.E] = true
				}
			}
			return out
		}
		check := func(in ssa.Instruction, x ssa.Value, need int64, what string) {
			if need <= 0 {
				return
			}
			// evident lengths
			switch y := resolve(x).(type) {
			case *ssa.Const:
				if y.Value != nil && y.Value.Kind() == constant.String && int64(len(constant.StringVal(y.Value))) >= need {
					return
				}
			case *ssa.MakeSlice:
				if l, ok := constInt(y.Len); ok && l >= need {
					return
				}
				// make([]T, len(b)+k)
				if b, ok := y.Len.(*ssa.BinOp); ok && b.Op == token.ADD {
					if kk, ok := constInt(b.Y); ok && kk >= need {
						if cl, _ := callOf(b.X); cl != nil && calleeFullName(&cl.Call) == "builtin len" {
							return
						}
					}
				}
			case *ssa.Slice:
				if _, isArr := y.X.Type().Underlying().(*types.Pointer); isArr {
					return // slice of a fixed-size array
				}
			}
			if _, isArr := x.Type().Underlying().(*types.Array); isArr {
				return
			}
			if pt, ok := x.Type().Underlying().(*types.Pointer); ok {
				if _, isArr := pt.Elem().Underlying().(*types.Array); isArr {
					return
				}
			}
			k++
			n++
			g := guardEdges(x, need)
			ok := len(g) > 0 && mustPassEdges(f, in.Block(), g)
			c.check(ok, c.Name(f), fmt.Sprintf("const-bound#%d %s", k, what), c.Pos(in.Pos()),
				fmt.Sprintf("len of the sliced value is known to be >= %d here", need),
				fmt.Sprintf("%s needs len >= %d, but no test of the length of this very value guards it (a guard on another measure - bytes vs runes, another variable - does not): it panics on inputs where the two differ", what, need))
		}
		eachInstr(f, func(r instrRef) {
			switch x := r.In.(type) {
			case *ssa.Slice:
				var need int64
				for _, b := range []ssa.Value{x.Low, x.High, x.Max} {
					if b == nil {
						continue
					}
					if kv, ok := constInt(b); ok && kv > need {
						need = kv
					}
				}
				check(x, x.X, need, "the slice expression")
			case *ssa.IndexAddr:
				if kv, ok := constInt(x.Index); ok {
					if _, isSlice := x.X.Type().Underlying().(*types.Slice); isSlice {
						check(x, x.X, kv+1, "the index expression")
					}
				}
			case *ssa.Index:
				if kv, ok := constInt(x.Index); ok {
					check(x, x.X, kv+1, "the index expression")
				}
			}
		})
	}
	if n == 0 {
		c.ok("<module>", "const-bounds", "-", "no constant-bound slice or index expression on a value of unknown length")
	}
	c.indexResultBounds()
}

// indexResultBounds (clause index-result, whole module): the result of a search function that answers -1 for "not found"
// (strings.Index, LastIndexByte, bytes.IndexByte, ...) is used as a slice bound or index only behind a test that it is not
// negative. After a command has committed, a panic in the code that prints its reply makes the command exit non-zero
// although the store changed.
func (c *Ctx) indexResultBounds() {
	isSearch := func(v ssa.Value) (string, bool) {
		cl, _ := callOf(v)
		if cl == nil {
			return "", false
		}
		n := calleeFullName(&cl.Call)
		for _, p := range []string{"strings.Index", "strings.LastIndex", "bytes.Index", "bytes.LastIndex", "slices.Index", "slices.IndexFunc", "strings.IndexByte", "strings.IndexRune", "strings.IndexAny", "strings.IndexFunc"} {
			if strings.HasPrefix(n, p) {
				return n, true
			}
		}
		return "", false
	}
	for _, f := range c.Fns {
		if !c.InModule(f) || f.Blocks == nil {
			continue
		}
		k := 0
		var facts []branchFact
		eachInstr(f, func(r instrRef) {
			var bounds []ssa.Value
			switch x := r.In.(type) {
			case *ssa.Slice:
				bounds = append(bounds, x.Low, x.High, x.Max)
			case *ssa.IndexAddr:
				bounds = append(bounds, x.Index)
			case *ssa.Index:
				bounds = append(bounds, x.Index)
			}
			for _, b := range bounds {
				if b == nil {
					continue
				}
				v := strip(b)
				name, ok := isSearch(v)
				if !ok {
					continue
				}
				k++
				if facts == nil {
					facts = directFacts(f)
				}
				guards := map[edge]bool{}
				for _, bf := range facts {
					a := bf.A
					var other ssa.Value
					op := a.Op
					switch {
					case a.Kind == "const" && strip(a.X) == v:
						other, op = a.C, token.EQL
					case a.Kind == "cmp" && strip(a.X) == v:
						other = a.Y
					case a.Kind == "cmp" && strip(a.Y) == v:
						other = a.X
						switch a.Op {
						case token.LSS:
							op = token.GTR
						case token.LEQ:
							op = token.GEQ
						case token.GTR:
							op = token.LSS
						case token.GEQ:
							op = token.LEQ
						}
					default:
						continue
					}
					kc, isC := other.(*ssa.Const)
					if !isC || kc.Value == nil || kc.Value.Kind() != constant.Int {
						continue
					}
					kv, _ := constant.Int64Val(kc.Value)
					nonNeg := false
					switch op {
					case token.GEQ:
						nonNeg = bf.Holds && kv >= 0
					case token.GTR:
						nonNeg = bf.Holds && kv >= -1
					case token.LSS:
						nonNeg = !bf.Holds && kv >= 0
					case token.LEQ:
						nonNeg = !bf.Holds && kv >= -1
					case token.EQL:
						nonNeg = (!bf.Holds && kv == -1) || (bf.Holds && kv >= 0)
					case token.NEQ:
						nonNeg = bf.Holds && kv == -1
					}
					if nonNeg {
						guards[bf.E] = true
					}
				}
				c.check(len(guards) > 0 && mustPassEdges(f, r.Blk, guards), c.Name(f), fmt.Sprintf("index-result %s#%d", name, k), c.Pos(r.In.Pos()),
					"the search result is used as a bound only where it is known not to be negative",
					"the result of "+name+" is used as a slice bound or index without a test that it is not -1: when the searched-for byte or string is absent the expression panics - in code that prints a reply after the command has committed, the command exits non-zero although the store changed")
			}
		})
	}
}
