package main

// SSA helpers shared by the rules: CFG reachability with removed edges (must-pass
// queries), branch-condition atoms (guard recognition), value resolution through
// single-store cells / closure captures / parameters, structural canonical forms.

import (
	"fmt"
	"go/constant"
	"go/token"
	"go/types"
	"sort"
	"strings"

	"golang.org/x/tools/go/ssa"
)

// ---------------------------------------------------------------- instructions

type instrRef struct {
	Fn  *ssa.Function
	Blk *ssa.BasicBlock
	Idx int
	In  ssa.Instruction
}

func eachInstr(f *ssa.Function, fn func(r instrRef)) {
	for _, b := range f.Blocks {
		for i, in := range b.Instrs {
			fn(instrRef{f, b, i, in})
		}
	}
}

func instrIndex(in ssa.Instruction) int {
	b := in.Block()
	for i, x := range b.Instrs {
		if x == in {
			return i
		}
	}
	return -1
}

// callsIn lists every call instruction (call, defer, go) of f in block/instruction order.
func callsIn(f *ssa.Function) []ssa.CallInstruction {
	var out []ssa.CallInstruction
	for _, b := range f.Blocks {
		for _, in := range b.Instrs {
			if c, ok := in.(ssa.CallInstruction); ok {
				out = append(out, c)
			}
		}
	}
	return out
}

// callsTo lists the call instructions in f whose static callee is g.
func callsTo(f, g *ssa.Function) []ssa.CallInstruction {
	var out []ssa.CallInstruction
	for _, c := range callsIn(f) {
		if calleeOf(c.Common()) == g {
			out = append(out, c)
		}
	}
	return out
}

// callsNamed lists the call instructions in f whose callee full name is one of names.
func callsNamed(f *ssa.Function, names ...string) []ssa.CallInstruction {
	var out []ssa.CallInstruction
	for _, c := range callsIn(f) {
		n := calleeFullName(c.Common())
		for _, w := range names {
			if n == w {
				out = append(out, c)
				break
			}
		}
	}
	return out
}

// sourceOrder sorts call instructions by source position (stable ordinals for keys).
func sourceOrder[T ssa.Instruction](xs []T) {
	sort.SliceStable(xs, func(i, j int) bool { return xs[i].Pos() < xs[j].Pos() })
}

// ---------------------------------------------------------------- CFG queries

type edge struct {
	From *ssa.BasicBlock
	Succ int
}

func (e edge) To() *ssa.BasicBlock { return e.From.Succs[e.Succ] }

// reach computes the blocks reachable from start without traversing removed edges
// and without entering blocked blocks (start itself is always included).
func reach(start *ssa.BasicBlock, removed map[edge]bool, blocked map[*ssa.BasicBlock]bool) map[*ssa.BasicBlock]bool {
	seen := map[*ssa.BasicBlock]bool{start: true}
	st := []*ssa.BasicBlock{start}
	for len(st) > 0 {
		b := st[len(st)-1]
		st = st[:len(st)-1]
		for i, s := range b.Succs {
			if removed[edge{b, i}] || blocked[s] || seen[s] {
				continue
			}
			seen[s] = true
			st = append(st, s)
		}
	}
	return seen
}

// mustPassEdges reports whether every path from f's entry to blk traverses one of pass.
func mustPassEdges(f *ssa.Function, blk *ssa.BasicBlock, pass map[edge]bool) bool {
	if len(pass) == 0 {
		return false
	}
	if blk == f.Blocks[0] {
		return false
	}
	return !reach(f.Blocks[0], pass, nil)[blk]
}

// instrDominates: a executes before b on every path reaching b (same function).
func instrDominates(a, b ssa.Instruction) bool {
	ba, bb := a.Block(), b.Block()
	if ba == bb {
		return instrIndex(a) < instrIndex(b)
	}
	return ba.Dominates(bb)
}

// canReachInstr: there is a CFG path from a to b (a strictly before b if same block, or via a cycle).
func canReachInstr(a, b ssa.Instruction) bool {
	ba, bb := a.Block(), b.Block()
	if ba == bb && instrIndex(a) < instrIndex(b) {
		return true
	}
	for i := range ba.Succs {
		s := ba.Succs[i]
		if s == bb || reach(s, nil, nil)[bb] {
			return true
		}
	}
	return false
}

// inCycle reports whether b lies on a CFG cycle.
func inCycle(b *ssa.BasicBlock) bool {
	for _, s := range b.Succs {
		if s == b || reach(s, nil, nil)[b] {
			return true
		}
	}
	return false
}

// returnsOf lists the Return instructions of f.
func returnsOf(f *ssa.Function) []*ssa.Return {
	var out []*ssa.Return
	for _, b := range f.Blocks {
		if len(b.Instrs) > 0 {
			if r, ok := b.Instrs[len(b.Instrs)-1].(*ssa.Return); ok {
				out = append(out, r)
			}
		}
	}
	return out
}

// ---------------------------------------------------------------- condition atoms

// Atom is a normalised branch condition.
//
//	Kind "nil"   : X == nil            (holds = X is nil)
//	Kind "const" : X == C              (holds = equal)
//	Kind "bool"  : X (a bool value)    (holds = true)
//	Kind "cmp"   : X Op Y              (holds = comparison true)
type Atom struct {
	Kind string
	X    ssa.Value
	C    *ssa.Const
	Op   token.Token
	Y    ssa.Value
	Env  env // non-nil for atoms that live inside a helper: the helper's parameters bound to the call's arguments
}

// val returns the tested value in the caller's terms: a helper parameter is replaced by the argument it was called with.
func (a Atom) val() ssa.Value { return resolveEnv(a.X, a.Env) }

// fieldLoadA is fieldLoad on the atom's value, with the base translated through the atom's environment.
func fieldLoadA(a Atom) (base ssa.Value, name string, ok bool) {
	b, n, ok := fieldLoad(resolve(a.X))
	if !ok {
		return nil, "", false
	}
	return resolveEnv(b, a.Env), n, true
}

func isNilConst(v ssa.Value) bool {
	c, ok := v.(*ssa.Const)
	return ok && c.Value == nil && !isBasic(c.Type())
}

func isBasic(t types.Type) bool {
	_, ok := t.Underlying().(*types.Basic)
	return ok
}

// decompose turns a condition value into an atom; positive reports whether the value
// being true means the atom holds.
func decompose(v ssa.Value) (a Atom, positive bool) {
	positive = true
	for {
		if u, ok := v.(*ssa.UnOp); ok && u.Op == token.NOT {
			positive = !positive
			v = u.X
			continue
		}
		break
	}
	if b, ok := v.(*ssa.BinOp); ok {
		switch b.Op {
		case token.EQL, token.NEQ:
			x, y := b.X, b.Y
			if _, ok := x.(*ssa.Const); ok {
				x, y = y, x
			}
			if isNilConst(y) {
				a = Atom{Kind: "nil", X: x}
			} else if c, ok := y.(*ssa.Const); ok {
				a = Atom{Kind: "const", X: x, C: c}
			} else {
				a = Atom{Kind: "cmp", X: b.X, Op: token.EQL, Y: b.Y}
			}
			if b.Op == token.NEQ {
				positive = !positive
			}
			return a, positive
		default:
			return Atom{Kind: "cmp", X: b.X, Op: b.Op, Y: b.Y}, positive
		}
	}
	return Atom{Kind: "bool", X: v}, positive
}

// branchFacts enumerates, for every If of f, its two out-edges together with the atom
// and whether the atom holds along that edge.
type branchFact struct {
	E       edge
	A       Atom
	Holds   bool
	If      *ssa.If
	Derived bool          // implied by the outcome of a helper call tested at this branch (A lives in the helper, A.Env set)
	Via     *ssa.Function // the helper whose outcome implies a derived fact
	Alts    [][]factAtom  // when the outcome is reachable through several alternative condition sets (a || b): the alternatives
}

type factAtom struct {
	A     Atom
	Holds bool
}

func directFacts(f *ssa.Function) []branchFact {
	var out []branchFact
	for _, b := range f.Blocks {
		if len(b.Instrs) == 0 {
			continue
		}
		iff, ok := b.Instrs[len(b.Instrs)-1].(*ssa.If)
		if !ok {
			continue
		}
		a, pos := decompose(iff.Cond)
		// `err = f(); if err != nil`: the tested load of a variable assigned just before, in the same block, is that value
		a.X = reachingDef(a.X)
		if a.Y != nil {
			a.Y = reachingDef(a.Y)
		}
		out = append(out, branchFact{E: edge{b, 0}, A: a, Holds: pos, If: iff}, branchFact{E: edge{b, 1}, A: a, Holds: !pos, If: iff})
	}
	return out
}

// reachingDef: v is a load of a local variable cell that was stored earlier in the same block with nothing in between
// that can write the cell (another store to it, or - when a closure that assigns the cell exists - any call): the value
// stored. Otherwise v.
func reachingDef(v ssa.Value) ssa.Value {
	ld, ok := v.(*ssa.UnOp)
	if !ok || ld.Op != token.MUL {
		return v
	}
	al, ok := ld.X.(*ssa.Alloc)
	if !ok {
		return v
	}
	blk := ld.Block()
	if blk == nil {
		return v
	}
	writtenElsewhere := false
	for _, st := range cellStores(al) {
		if st.Parent() != ld.Parent() {
			writtenElsewhere = true
		}
	}
	idx := -1
	for i, in := range blk.Instrs {
		if in == ssa.Instruction(ld) {
			idx = i
		}
	}
	for i := idx - 1; i >= 0; i-- {
		switch x := blk.Instrs[i].(type) {
		case *ssa.Store:
			if x.Addr == ssa.Value(al) {
				return x.Val
			}
		case ssa.CallInstruction:
			if writtenElsewhere {
				return v
			}
			_ = x
		}
	}
	return v
}

// reachingStoreVals: the values that the load of a local variable cell can see: the last store to the cell on every
// path into the load (block-granular backward search). ok is false when the cell is written outside the function, or a
// path reaches the load from the function entry without any store.
func reachingStoreVals(ld *ssa.UnOp) (vals []ssa.Value, ok bool) {
	al, isAl := ld.X.(*ssa.Alloc)
	if !isAl || ld.Op != token.MUL || ld.Block() == nil {
		return nil, false
	}
	for _, st := range cellStores(al) {
		if st.Parent() != ld.Parent() {
			return nil, false
		}
	}
	lastStore := func(b *ssa.BasicBlock, before int) *ssa.Store {
		for i := before - 1; i >= 0; i-- {
			if st, isSt := b.Instrs[i].(*ssa.Store); isSt && st.Addr == ssa.Value(al) {
				return st
			}
		}
		return nil
	}
	if st := lastStore(ld.Block(), instrIndex(ld)); st != nil {
		return []ssa.Value{st.Val}, true
	}
	seen := map[*ssa.BasicBlock]bool{}
	ok = true
	var walk func(b *ssa.BasicBlock)
	walk = func(b *ssa.BasicBlock) {
		if len(b.Preds) == 0 {
			ok = false
		}
		for _, p := range b.Preds {
			if seen[p] {
				continue
			}
			seen[p] = true
			if st := lastStore(p, len(p.Instrs)); st != nil {
				vals = append(vals, st.Val)
				continue
			}
			walk(p)
		}
	}
	walk(ld.Block())
	return vals, ok
}

// storedJustBefore: v is a load from an address (a captured variable, a field) that was stored to earlier in the same
// block with no call and no other store to that address in between: the value stored. Otherwise nil.
func storedJustBefore(v ssa.Value) ssa.Value {
	ld, ok := strip(v).(*ssa.UnOp)
	if !ok || ld.Op != token.MUL || ld.Block() == nil {
		return nil
	}
	blk := ld.Block()
	idx := instrIndex(ld)
	for i := idx - 1; i >= 0; i-- {
		switch x := blk.Instrs[i].(type) {
		case *ssa.Store:
			if x.Addr == ld.X {
				return x.Val
			}
		case ssa.CallInstruction:
			return nil
		}
	}
	return nil
}

// holdsValue: v is target itself, or a load of a local variable that was assigned target with no other assignment to the
// variable on any path from that assignment to the load.
func holdsValue(v, target ssa.Value) bool {
	v = strip(v)
	if v == target {
		return true
	}
	ld, ok := v.(*ssa.UnOp)
	if !ok || ld.Op != token.MUL {
		return false
	}
	al, ok := ld.X.(*ssa.Alloc)
	if !ok || ld.Block() == nil {
		return false
	}
	stores := cellStores(al)
	for _, st := range stores {
		if strip(st.Val) != target || st.Parent() != ld.Parent() {
			continue
		}
		if !(st.Block() == ld.Block() && instrIndex(st) < instrIndex(ld)) && !(st.Block() != ld.Block() && st.Block().Dominates(ld.Block())) {
			continue
		}
		clean := true
		from := reach(st.Block(), nil, nil)
		for _, other := range stores {
			if other == st {
				continue
			}
			if other.Parent() != ld.Parent() {
				clean = false // assigned by a closure: not tracked
				continue
			}
			if sl, ok := strip(other.Val).(*ssa.UnOp); ok && sl.Op == token.MUL && sl.X == ssa.Value(al) {
				continue // x = x
			}
			if other.Block() == st.Block() && instrIndex(other) < instrIndex(st) {
				continue
			}
			if from[other.Block()] && reach(other.Block(), nil, nil)[ld.Block()] {
				clean = false
			}
		}
		if clean {
			return true
		}
	}
	return false
}

// edgesWhere selects the out-edges along which pred says the wanted fact is established.
// curEnv is the parameter binding of the atom currently being examined (set by edgesWhere and by loops over
// branchFacts): canon and fieldLoad translate helper parameters through it, so predicates written for the
// caller's values also match atoms that live inside a helper.
var curEnv env

func edgesWhere(f *ssa.Function, pred func(a Atom, holds bool) bool) map[edge]bool {
	out := map[edge]bool{}
	defer func() { curEnv = nil }()
	for _, bf := range branchFacts(f) {
		curEnv = bf.A.Env
		if pred(bf.A, bf.Holds) {
			out[bf.E] = true
			continue
		}
		// disjunctive outcome of a helper: the edge establishes the fact if every alternative does
		if len(bf.Alts) > 0 {
			all := true
			for _, alt := range bf.Alts {
				any := false
				for _, fa := range alt {
					curEnv = fa.A.Env
					if pred(fa.A, fa.Holds) {
						any = true
					}
				}
				if !any {
					all = false
				}
			}
			if all {
				out[bf.E] = true
			}
		}
	}
	return out
}

// ---------------------------------------------------------------- value resolution

// strip removes representation-only wrappers.
func strip(v ssa.Value) ssa.Value {
	for {
		switch x := v.(type) {
		case *ssa.ChangeType:
			v = x.X
		case *ssa.MakeInterface:
			v = x.X
		case *ssa.ChangeInterface:
			v = x.X
		default:
			return v
		}
	}
}

// callOf returns the call producing v (directly or via Extract of a tuple), and the tuple index (-1 if single).
func callOf(v ssa.Value) (*ssa.Call, int) {
	v = strip(v)
	switch x := v.(type) {
	case *ssa.Call:
		return x, -1
	case *ssa.Extract:
		if c, ok := x.Tuple.(*ssa.Call); ok {
			return c, x.Index
		}
	}
	return nil, -1
}

// bindingOf resolves a closure free variable to the value bound at the (unique) MakeClosure site.
func bindingOf(fv *ssa.FreeVar) ssa.Value {
	g := fv.Parent()
	par := g.Parent()
	if par == nil {
		return nil
	}
	idx := -1
	for i, x := range g.FreeVars {
		if x == fv {
			idx = i
		}
	}
	if idx < 0 {
		return nil
	}
	var found ssa.Value
	n := 0
	for _, b := range par.Blocks {
		for _, in := range b.Instrs {
			if mc, ok := in.(*ssa.MakeClosure); ok && mc.Fn == g {
				found = mc.Bindings[idx]
				n++
			}
		}
	}
	if n != 1 {
		return nil
	}
	return found
}

// cellOf resolves an address value to its allocation cell, following closure captures.
func cellOf(addr ssa.Value) *ssa.Alloc {
	for i := 0; i < 8; i++ {
		switch x := addr.(type) {
		case *ssa.Alloc:
			return x
		case *ssa.FreeVar:
			b := bindingOf(x)
			if b == nil {
				return nil
			}
			addr = b
		case *ssa.Parameter:
			// a cell handed to a private helper by address: the helper's only call site names the cell
			if curProg == nil {
				return nil
			}
			if b, ok := curProg.boundRecv[x]; ok {
				addr = b
				continue
			}
			sites := curProg.callers[x.Parent()]
			idx := paramIndex(x)
			if len(sites) != 1 || idx < 0 || idx >= len(sites[0].Call.Common().Args) {
				return nil
			}
			if _, isPtr := x.Type().Underlying().(*types.Pointer); !isPtr {
				return nil
			}
			addr = sites[0].Call.Common().Args[idx]
		default:
			return nil
		}
	}
	return nil
}

// cellAliases: every address value that denotes the cell — the Alloc, the free variables of closures capturing it, and
// the pointer parameters of module helpers it is passed to.
var aliasDepth int

func cellAliases(cell *ssa.Alloc) []ssa.Value {
	aliasDepth++
	defer func() { aliasDepth-- }()
	if aliasDepth > 4 {
		return []ssa.Value{cell}
	}
	var out []ssa.Value
	seen := map[ssa.Value]bool{}
	var visit func(addr ssa.Value)
	visit = func(addr ssa.Value) {
		if seen[addr] {
			return
		}
		seen[addr] = true
		out = append(out, addr)
		refs := addr.Referrers()
		if refs == nil {
			return
		}
		for _, r := range *refs {
			switch x := r.(type) {
			case *ssa.MakeClosure:
				g := x.Fn.(*ssa.Function)
				if curProg != nil {
					if m := curProg.boundMethod[g]; m != nil && len(x.Bindings) == 1 && x.Bindings[0] == addr {
						visit(m.Params[0]) // bound method value: the receiver inside the method is this address
						continue
					}
				}
				for i, bnd := range x.Bindings {
					if bnd == addr && i < len(g.FreeVars) {
						visit(g.FreeVars[i])
					}
				}
			case *ssa.Return:
				// a constructor handing the struct's address back: the call's value at every call site is the same address
				if curProg != nil {
					fn := x.Parent()
					if len(x.Results) == 1 && x.Results[0] == addr && fn.Parent() == nil {
						for _, cs := range curProg.callers[fn] {
							if cv, ok := cs.Call.(*ssa.Call); ok {
								visit(cv)
							}
						}
					}
				}
			case *ssa.Store:
				// the address itself kept in a local (a captured pointer parameter is spilled): loads of that local alias it
				if x.Val == addr {
					if holder, ok := x.Addr.(*ssa.Alloc); ok && holder != cell && len(seen) < 64 {
						for _, ld := range cellLoads(holder) {
							visit(ld)
						}
					}
				}
			case ssa.CallInstruction:
				cal := calleeOf(x.Common())
				if cal == nil || cal.Blocks == nil || curProg == nil || !curProg.InModule(cal) || x.Common().IsInvoke() {
					continue
				}
				for i, a := range x.Common().Args {
					if a == addr && i < len(cal.Params) {
						visit(cal.Params[i])
					}
				}
			}
		}
	}
	visit(cell)
	return out
}

// cellStores lists every Store whose address is the cell, in the allocating function and in
// every closure that captures it (transitively).
func cellStores(cell *ssa.Alloc) []*ssa.Store {
	var out []*ssa.Store
	for _, addr := range cellAliases(cell) {
		if refs := addr.Referrers(); refs != nil {
			for _, r := range *refs {
				if st, ok := r.(*ssa.Store); ok && st.Addr == addr {
					out = append(out, st)
				}
			}
		}
	}
	return out
}

// cellLoads lists every load (*cell) in the allocating function, capturing closures and helpers it is passed to.
func cellLoads(cell *ssa.Alloc) []*ssa.UnOp {
	var out []*ssa.UnOp
	for _, addr := range cellAliases(cell) {
		if refs := addr.Referrers(); refs != nil {
			for _, r := range *refs {
				if x, ok := r.(*ssa.UnOp); ok && x.Op == token.MUL && x.X == addr {
					out = append(out, x)
				}
			}
		}
	}
	return out
}

// resolve follows loads of single-store cells and closure captures to the defining value.
func resolve(v ssa.Value) ssa.Value {
	for i := 0; i < 16; i++ {
		v = strip(v)
		switch x := v.(type) {
		case *ssa.UnOp:
			if x.Op != token.MUL {
				return v
			}
			if _, isField := x.X.(*ssa.FieldAddr); isField {
				// field of a local struct / parameter struct with exactly one origin
				if os, ok := fieldOrigins(x, 0); ok && len(os) >= 1 {
					same := true
					for _, o := range os[1:] {
						if o.V != os[0].V {
							same = false
						}
					}
					if same {
						v = os[0].V
						continue
					}
				}
				return v
			}
			cell := cellOf(x.X)
			if cell == nil {
				return v
			}
			// only whole-cell scalars (not struct/array cells written by field)
			st := cellStores(cell)
			if len(st) != 1 {
				return v
			}
			v = st[0].Val
		case *ssa.FreeVar:
			b := bindingOf(x)
			if b == nil {
				return v
			}
			v = b
		case *ssa.Field:
			// field of a struct passed by value (a by-value receiver) with exactly one origin
			if os, ok := fieldOrigins(x, 0); ok && len(os) >= 1 {
				same := true
				for _, o := range os[1:] {
					if o.V != os[0].V {
						same = false
					}
				}
				if same {
					v = os[0].V
					continue
				}
			}
			return v
		default:
			return v
		}
	}
	return v
}

// constString returns the string constant v resolves to.
func constString(v ssa.Value) (string, bool) {
	v = resolve(v)
	if c, ok := v.(*ssa.Const); ok && c.Value != nil && c.Value.Kind() == constant.String {
		return constant.StringVal(c.Value), true
	}
	return "", false
}

func constInt(v ssa.Value) (int64, bool) {
	v = resolve(v)
	if c, ok := v.(*ssa.Const); ok && c.Value != nil && c.Value.Kind() == constant.Int {
		return constant.Int64Val(c.Value)
	}
	return 0, false
}

func constBool(v ssa.Value) (bool, bool) {
	v = resolve(v)
	if c, ok := v.(*ssa.Const); ok && c.Value != nil && c.Value.Kind() == constant.Bool {
		return constant.BoolVal(c.Value), true
	}
	return false, false
}

// paramIndex returns the index of p among its function's parameters.
func paramIndex(p *ssa.Parameter) int {
	for i, q := range p.Parent().Params {
		if q == p {
			return i
		}
	}
	return -1
}

// pureCalls are treated structurally by canon (equal arguments => equal value class).
var pureCalls = map[string]bool{
	"path/filepath.Join": true, "path/filepath.Dir": true, "path/filepath.Clean": true,
	"path/filepath.Base": true, "strings.TrimSpace": true,
	ergoPath + ".getEventsPath": true, ergoPath + ".formatTime": true,
}

// canon renders a structural form of v; equal strings mean "same origin / same value class".
// Impure calls, allocations and phis carry their identity, so two different draws differ.
func (p *Prog) canon(v ssa.Value) string { return p.canonD(v, 0) }

// canonE is canon with helper parameters substituted by the arguments they are bound to in e.
func (p *Prog) canonE(v ssa.Value, e env) string {
	if len(e) == 0 {
		return p.canonD(v, 0)
	}
	old := p.canonEnv
	p.canonEnv = e
	defer func() { p.canonEnv = old }()
	return p.canonD(v, 0)
}

func (p *Prog) canonD(v ssa.Value, d int) string {
	if d > 12 {
		return "…"
	}
	if p.canonEnv != nil {
		v = resolveEnv(v, p.canonEnv)
	} else {
		v = resolveEnv(v, curEnv)
	}
	switch x := v.(type) {
	case nil:
		return "<nil>"
	case *ssa.Const:
		if x.Value == nil {
			return "nil"
		}
		return "const:" + x.Value.ExactString()
	case *ssa.Parameter:
		return fmt.Sprintf("param:%s#%d", p.Name(x.Parent()), paramIndex(x))
	case *ssa.FreeVar:
		return fmt.Sprintf("freevar:%s.%s", p.Name(x.Parent()), x.Name())
	case *ssa.Global:
		return "global:" + x.Name()
	case *ssa.Function:
		return "func:" + p.Name(x)
	case *ssa.MakeClosure:
		return "closure:" + p.Name(x.Fn.(*ssa.Function))
	case *ssa.Alloc:
		return fmt.Sprintf("alloc:%s@%d", p.Name(x.Parent()), x.Pos())
	case *ssa.Call:
		name := calleeFullName(&x.Call)
		var as []string
		if x.Call.IsInvoke() {
			as = append(as, p.canonD(x.Call.Value, d+1))
		}
		for _, a := range x.Call.Args {
			as = append(as, p.canonD(a, d+1))
		}
		if pureCalls[name] {
			return name + "(" + strings.Join(as, ",") + ")"
		}
		return fmt.Sprintf("%s@%s:%d(%s)", name, p.Name(x.Parent()), x.Pos(), strings.Join(as, ","))
	case *ssa.Extract:
		if cl, ok := x.Tuple.(*ssa.Call); ok {
			if s, ok := p.canonThroughHelper(cl, x.Index, d); ok {
				return s
			}
		}
		return p.canonD(x.Tuple, d+1) + "#" + fmt.Sprint(x.Index)
	case *ssa.FieldAddr:
		return p.canonD(x.X, d+1) + "." + fieldName(x.X.Type(), x.Field)
	case *ssa.Field:
		return p.canonD(x.X, d+1) + "." + fieldName(x.X.Type(), x.Field)
	case *ssa.UnOp:
		if x.Op == token.MUL {
			// field of a local struct that is a plain copy of one value (data := decode(...); data.ID): the field of that value
			if fa, ok := x.X.(*ssa.FieldAddr); ok {
				if al, ok := fa.X.(*ssa.Alloc); ok {
					if w := plainCopyOf(al); w != nil {
						return p.canonD(w, d+1) + "." + fieldName(fa.X.Type(), fa.Field)
					}
				}
			}
			return "*" + p.canonD(x.X, d+1)
		}
		return x.Op.String() + p.canonD(x.X, d+1)
	case *ssa.BinOp:
		return "(" + p.canonD(x.X, d+1) + x.Op.String() + p.canonD(x.Y, d+1) + ")"
	case *ssa.Phi:
		return fmt.Sprintf("phi:%s@b%d.%s", p.Name(x.Parent()), x.Block().Index, x.Name())
	case *ssa.Lookup:
		return p.canonD(x.X, d+1) + "[" + p.canonD(x.Index, d+1) + "]"
	case *ssa.Index:
		return p.canonD(x.X, d+1) + "[" + p.canonD(x.Index, d+1) + "]"
	case *ssa.IndexAddr:
		return p.canonD(x.X, d+1) + "[" + p.canonD(x.Index, d+1) + "]"
	case *ssa.Slice:
		return "slice(" + p.canonD(x.X, d+1) + ")"
	case *ssa.Convert:
		return "conv(" + p.canonD(x.X, d+1) + ")"
	case *ssa.TypeAssert:
		return p.canonD(x.X, d+1)
	case *ssa.MakeMap:
		return fmt.Sprintf("makemap:%s@%d", p.Name(x.Parent()), x.Pos())
	case *ssa.MakeSlice:
		return fmt.Sprintf("makeslice:%s@%d", p.Name(x.Parent()), x.Pos())
	case *ssa.Range, *ssa.Next:
		return fmt.Sprintf("iter:%s", v.Name())
	}
	return fmt.Sprintf("%T:%s", v, v.Name())
}

// canonThroughHelper: result idx of a call to a private (non-anchor) module helper that hands back the same value on
// every return that is not a definite failure (decodeDependsLink returning the payload it decoded) is that value,
// with the helper's parameters bound to the call's arguments.
func (p *Prog) canonThroughHelper(cl *ssa.Call, idx int, d int) (string, bool) {
	h := calleeOf(&cl.Call)
	if h == nil || h.Blocks == nil || !p.InModule(h) || p.opaque[h] || d > 8 || len(p.callers[h]) > 4 {
		return "", false
	}
	var same ssa.Value
	for _, r := range returnsOf(h) {
		if r.Block().Comment == "recover" || idx >= len(r.Results) {
			return "", false
		}
		// skip returns that definitely fail (last result a fresh/tested non-nil error)
		last := returnedValue(r, len(r.Results)-1)
		if isErrorType(r.Results[len(r.Results)-1]) && !isNilConst(last) {
			continue
		}
		v := resolve(returnedValue(r, idx))
		if same == nil {
			same = v
		} else if same != v {
			return "", false
		}
	}
	if same == nil {
		return "", false
	}
	switch same.(type) {
	case *ssa.Const, *ssa.Phi:
		return "", false
	}
	e := env{}
	outer := p.canonEnv
	if outer == nil {
		outer = curEnv
	}
	for k, v := range outer {
		e[k] = v
	}
	for i, prm := range h.Params {
		if i < len(cl.Call.Args) {
			e[prm] = resolveEnv(cl.Call.Args[i], outer)
		}
	}
	old := p.canonEnv
	p.canonEnv = e
	defer func() { p.canonEnv = old }()
	return p.canonD(same, d+1), true
}

// plainCopyOf: the struct local is written exactly once, as a whole, never through a field, and its address does not
// escape: it is a name for the stored value.
func plainCopyOf(al *ssa.Alloc) ssa.Value {
	refs := al.Referrers()
	if refs == nil {
		return nil
	}
	var w ssa.Value
	for _, r := range *refs {
		switch y := r.(type) {
		case *ssa.Store:
			if y.Addr != ssa.Value(al) || w != nil {
				return nil
			}
			w = y.Val
		case *ssa.FieldAddr:
			if y.Referrers() != nil {
				for _, u := range *y.Referrers() {
					switch u.(type) {
					case *ssa.UnOp, *ssa.DebugRef:
					default:
						return nil
					}
				}
			}
		case *ssa.UnOp, *ssa.DebugRef:
		default:
			return nil
		}
	}
	if w == nil {
		return nil
	}
	if _, isConst := w.(*ssa.Const); isConst {
		return nil
	}
	return w
}

func fieldName(t types.Type, i int) string {
	if pt, ok := t.Underlying().(*types.Pointer); ok {
		t = pt.Elem()
	}
	if st, ok := t.Underlying().(*types.Struct); ok && i < st.NumFields() {
		return st.Field(i).Name()
	}
	return fmt.Sprintf("f%d", i)
}

// namedTypeName returns "pkg.Type" for (pointers to) named types, else "".
func namedTypeName(t types.Type) string {
	if pt, ok := t.(*types.Pointer); ok {
		t = pt.Elem()
	}
	if n, ok := t.(*types.Named); ok {
		if n.Obj().Pkg() != nil {
			return n.Obj().Pkg().Name() + "." + n.Obj().Name()
		}
		return n.Obj().Name()
	}
	return ""
}

// argValues returns, for parameter index i of f, the argument values at all static module call sites.
func (p *Prog) argValues(f *ssa.Function, i int) []ssa.Value {
	var out []ssa.Value
	for _, cs := range p.callers[f] {
		args := cs.Call.Common().Args
		if i < len(args) {
			out = append(out, args[i])
		}
	}
	return out
}

// deadFunction: an unexported top-level function of the module that nothing calls or mentions in the non-test build (a
// wrapper kept for the tests' sake): what flows into its parameters is nothing.
func (p *Prog) deadFunction(f *ssa.Function) bool {
	if f == nil || f.Parent() != nil || f.Signature.Recv() != nil || !p.InModule(f) {
		return false
	}
	if o := f.Object(); o == nil || o.Exported() || f.Name() == "init" || f.Name() == "main" {
		return false
	}
	if p.mentioned == nil {
		p.mentioned = map[*ssa.Function]bool{}
		for _, g := range p.Fns {
			for _, b := range g.Blocks {
				for _, in := range b.Instrs {
					for _, op := range in.Operands(nil) {
						if h, ok := (*op).(*ssa.Function); ok {
							p.mentioned[h] = true
						}
					}
				}
			}
		}
	}
	return !p.mentioned[f] && len(p.callers[f]) == 0
}

// fieldLoad recognises a load of struct field `name` (via FieldAddr+load or Field) and returns the base.
func fieldLoad(v ssa.Value) (base ssa.Value, name string, ok bool) {
	v = strip(v)
	if len(curEnv) > 0 {
		v = strip(resolveEnv(v, curEnv))
	}
	switch x := v.(type) {
	case *ssa.UnOp:
		if x.Op == token.MUL {
			if fa, ok := x.X.(*ssa.FieldAddr); ok {
				return envBase(fa.X), fieldName(fa.X.Type(), fa.Field), true
			}
		}
	case *ssa.Field:
		return envBase(x.X), fieldName(x.X.Type(), x.Field), true
	}
	return nil, "", false
}

// optionsFieldAddr: fa addresses a field of the command options (ergo.GlobalOptions), directly or inside one of its
// option groups (opts.Output.JSON, opts.Store.StartDir): the leaf field's name.
func optionsFieldAddr(fa *ssa.FieldAddr) (string, bool) {
	x := fa.X
	for d := 0; d < 4; d++ {
		if namedTypeName(x.Type()) == "ergo.GlobalOptions" {
			return fieldName(fa.X.Type(), fa.Field), true
		}
		up, ok := x.(*ssa.FieldAddr)
		if !ok {
			return "", false
		}
		x = up.X
	}
	return "", false
}

// optionsFieldLoad: v reads a field of the command options (see optionsFieldAddr); value-typed selections included.
func optionsFieldLoad(v ssa.Value) (string, bool) {
	v = strip(v)
	switch x := v.(type) {
	case *ssa.UnOp:
		if fa, ok := x.X.(*ssa.FieldAddr); ok && x.Op == token.MUL {
			return optionsFieldAddr(fa)
		}
	case *ssa.Field:
		var b ssa.Value = x.X
		for d := 0; d < 4; d++ {
			if namedTypeName(b.Type()) == "ergo.GlobalOptions" {
				return fieldName(x.X.Type(), x.Field), true
			}
			switch up := b.(type) {
			case *ssa.Field:
				b = up.X
			case *ssa.UnOp:
				if fa, ok := up.X.(*ssa.FieldAddr); ok && up.Op == token.MUL {
					if _, ok := optionsFieldAddr(fa); ok {
						return fieldName(x.X.Type(), x.Field), true
					}
				}
				return "", false
			default:
				return "", false
			}
		}
	}
	return "", false
}

func envBase(b ssa.Value) ssa.Value {
	if len(curEnv) > 0 {
		return resolveEnv(b, curEnv)
	}
	return b
}

// usesValue reports whether instruction in (transitively through pure value operations,
// depth-limited) uses v as an operand.
func usesValue(in ssa.Instruction, v ssa.Value) bool {
	for _, op := range in.Operands(nil) {
		if *op == v {
			return true
		}
	}
	return false
}

// derivesFrom reports whether v is computed from src through value operations (backward slice,
// including loads of cells that were stored a derived value).
func derivesFrom(v, src ssa.Value) bool {
	seen := map[ssa.Value]bool{}
	var walk func(x ssa.Value, d int) bool
	walk = func(x ssa.Value, d int) bool {
		if x == nil || d > 40 {
			return false
		}
		if x == src {
			return true
		}
		if seen[x] {
			return false
		}
		seen[x] = true
		if u, ok := x.(*ssa.UnOp); ok && u.Op == token.MUL {
			if cell := cellOf(u.X); cell != nil {
				for _, st := range cellStores(cell) {
					if walk(st.Val, d+1) {
						return true
					}
				}
			}
		}
		if fv, ok := x.(*ssa.FreeVar); ok {
			if b := bindingOf(fv); b != nil {
				return walk(b, d+1)
			}
			return false
		}
		if u, ok := x.(*ssa.UnOp); ok && u.Op == token.MUL {
			if _, isField := u.X.(*ssa.FieldAddr); isField {
				if os, ok := fieldOrigins(u, 0); ok && len(os) > 0 {
					for _, o := range os {
						if walk(o.V, d+1) {
							return true
						}
					}
					return false
				}
			}
		}
		if prm, ok := x.(*ssa.Parameter); ok {
			// a helper's parameter derives from src when the argument does at every call site
			if curProg == nil {
				return false
			}
			sites := curProg.callers[prm.Parent()]
			idx := paramIndex(prm)
			if len(sites) == 0 || idx < 0 {
				return false
			}
			for _, cs := range sites {
				args := cs.Call.Common().Args
				if idx >= len(args) {
					return false
				}
				if !walk(args[idx], d+1) {
					return false
				}
			}
			return true
		}
		if al, ok := x.(*ssa.Alloc); ok {
			// a local struct/array copy: whole-value stores and element/field stores
			for _, st := range cellStores(al) {
				if walk(st.Val, d+1) {
					return true
				}
			}
			if refs := al.Referrers(); refs != nil {
				for _, r := range *refs {
					var addr ssa.Value
					switch y := r.(type) {
					case *ssa.FieldAddr:
						addr = y
					case *ssa.IndexAddr:
						addr = y
					}
					if addr == nil || addr.Referrers() == nil {
						continue
					}
					for _, u := range *addr.Referrers() {
						if st, ok := u.(*ssa.Store); ok && st.Addr == addr && walk(st.Val, d+1) {
							return true
						}
					}
				}
			}
			return false
		}
		in, ok := x.(ssa.Instruction)
		if !ok {
			return false
		}
		for _, op := range in.Operands(nil) {
			if *op != nil && walk(*op, d+1) {
				return true
			}
		}
		return false
	}
	return walk(v, 0)
}

// funcValuesOf resolves a function-typed value to the module functions it can denote: a closure, a named function,
// a bound method, or the result of a module helper that returns one of those on every return.
func funcValuesOf(v ssa.Value, d int) []*ssa.Function {
	if v == nil || d > 4 {
		return nil
	}
	switch x := resolve(v).(type) {
	case *ssa.MakeClosure:
		if f, ok := x.Fn.(*ssa.Function); ok {
			return []*ssa.Function{f}
		}
	case *ssa.Function:
		return []*ssa.Function{x}
	case *ssa.Call:
		cal := calleeOf(&x.Call)
		if cal == nil || cal.Blocks == nil || curProg == nil || !curProg.InModule(cal) {
			return nil
		}
		var out []*ssa.Function
		for _, r := range returnsOf(cal) {
			if len(r.Results) != 1 {
				return nil
			}
			fs := funcValuesOf(returnedValue(r, 0), d+1)
			if len(fs) == 0 {
				return nil
			}
			out = append(out, fs...)
		}
		return out
	case *ssa.ChangeType:
		return funcValuesOf(x.X, d+1)
	}
	return nil
}

// ---------------------------------------------------------------- struct fields as value carriers

// originVal is a value that may flow into a location, with the instruction at which it is handed over.
// addrOriginsWithEnv: fieldOfAddr records, for values written inside a constructor, what the constructor's parameters are
// bound to at the call crossed (off by default: most consumers compare origins by canonical text).
var addrOriginsWithEnv bool

type originVal struct {
	V  ssa.Value
	At ssa.Instruction
	E  env // parameter bindings collected on the way (constructor / method call sites crossed): V is to be read under E
}

// fieldOrigins: v is a read of field i of a struct (load of &A.f, or Field(X,i)); returns every value that can have been
// stored into that field: field stores on the local struct, and - when the struct is a by-value parameter (a parameter
// struct such as newItemSpec) or the result of a module constructor - the field of the composite literal built by each
// caller / return. ok=false when some origin cannot be followed (escaping address, external call).
func fieldOrigins(v ssa.Value, d int) ([]originVal, bool) {
	if d > 14 {
		return nil, false
	}
	switch x := strip(v).(type) {
	case *ssa.UnOp:
		if x.Op != token.MUL {
			return nil, false
		}
		fa, ok := x.X.(*ssa.FieldAddr)
		if !ok {
			return nil, false
		}
		return fieldOfAddr(fa.X, fa.Field, x, d)
	case *ssa.Field:
		return fieldOfStructValue(x.X, x.Field, x, d)
	}
	return nil, false
}

// fieldOfAddr: origins of field i of the struct stored at address base.
func fieldOfAddr(base ssa.Value, i int, at ssa.Instruction, d int) ([]originVal, bool) {
	if d > 14 {
		return nil, false
	}
	al, ok := base.(*ssa.Alloc)
	if !ok {
		if nfa, isNested := base.(*ssa.FieldAddr); isNested {
			// a struct kept in a field of another struct (r.plan.PrunedIDs): the whole values stored into the outer field
			outer, ok := fieldOfAddr(nfa.X, nfa.Field, at, d+1)
			if !ok {
				return nil, false
			}
			var out []originVal
			for _, o := range outer {
				sub, ok := fieldOfStructValue(o.V, i, o.At, d+1)
				if !ok {
					return nil, false
				}
				for k := range sub {
					if len(o.E) > 0 {
						ne := env{}
						for pk, pv := range o.E {
							ne[pk] = pv
						}
						for pk, pv := range sub[k].E {
							ne[pk] = pv
						}
						sub[k].E = ne
					}
				}
				out = append(out, sub...)
			}
			return out, true
		}
		if u, isLoad := base.(*ssa.UnOp); isLoad && u.Op == token.MUL {
			// pointer kept in a local: follow single-store cells
			if r := resolve(u); r != ssa.Value(u) {
				return fieldOfAddr(r, i, at, d+1)
			}
		}
		if fv, isFV := base.(*ssa.FreeVar); isFV {
			if b := bindingOf(fv); b != nil {
				return fieldOfAddr(b, i, at, d+1)
			}
		}
		retIdx := 0
		if ex, isEx := base.(*ssa.Extract); isEx {
			// (st, err := openStore(opts)): result #0 of a constructor that can fail
			if cl, isCall := ex.Tuple.(*ssa.Call); isCall {
				base, retIdx = cl, ex.Index
			}
		}
		if cl, isCall := base.(*ssa.Call); isCall && curProg != nil {
			// pointer returned by a module constructor (newPlanCompiler(...)): the struct it allocates
			if cal := calleeOf(&cl.Call); cal != nil && cal.Blocks != nil && curProg.InModule(cal) && retIdx < cal.Signature.Results().Len() {
				var out []originVal
				for _, r := range returnsOf(cal) {
					if retIdx >= len(r.Results) {
						return nil, false
					}
					rv := returnedValue(r, retIdx)
					if isNilConst(rv) {
						continue
					}
					sub, ok := fieldOfAddr(rv, i, at, d+1)
					if !ok {
						return nil, false
					}
					// values inside the constructor are expressed over its parameters: remember what this call binds them to
					// (only for callers that read origins under their environment: see addrOriginsWithEnv)
					for k := range sub {
						if !addrOriginsWithEnv {
							break
						}
						ne := env{}
						for pk, pv := range sub[k].E {
							ne[pk] = pv
						}
						for pi, prm := range cal.Params {
							if pi < len(cl.Call.Args) {
								if _, bound := ne[prm]; !bound {
									ne[prm] = cl.Call.Args[pi]
								}
							}
						}
						sub[k].E = ne
					}
					out = append(out, sub...)
				}
				return out, true
			}
		}
		if prm, isPrm := base.(*ssa.Parameter); isPrm && curProg != nil {
			if b, ok := curProg.boundRecv[prm]; ok {
				return fieldOfAddr(b, i, at, d+1)
			}
			// pointer parameter of a helper / receiver of a method: the struct each call site hands in
			if sites := curProg.callers[prm.Parent()]; len(sites) > 0 && len(sites) <= 48 {
				idx := paramIndex(prm)
				var out []originVal
				seenV := map[ssa.Value]bool{}
				for _, cs := range sites {
					if idx < 0 || idx >= len(cs.Call.Common().Args) {
						return nil, false
					}
					sub, ok := fieldOfAddr(cs.Call.Common().Args[idx], i, at, d+1)
					if !ok {
						return nil, false
					}
					for _, o := range sub {
						if !seenV[o.V] {
							seenV[o.V] = true
							out = append(out, o)
						}
					}
				}
				return out, true
			}
		}
		return nil, false
	}
	var out []originVal
	for _, addr := range cellAliases(al) {
		refs := addr.Referrers()
		if refs == nil {
			continue
		}
		for _, r := range *refs {
			switch y := r.(type) {
			case *ssa.FieldAddr:
				if y.Field != i || y.Referrers() == nil {
					continue
				}
				for _, u := range *y.Referrers() {
					switch z := u.(type) {
					case *ssa.Store:
						if z.Addr == ssa.Value(y) {
							out = append(out, originVal{V: z.Val, At: z})
						}
					case *ssa.UnOp, *ssa.DebugRef:
					case *ssa.FieldAddr:
						// a field of the struct kept in this field: fine while it is only read there
						if z.Referrers() != nil {
							for _, zz := range *z.Referrers() {
								switch zz.(type) {
								case *ssa.UnOp, *ssa.DebugRef:
								default:
									return nil, false
								}
							}
						}
					default:
						return nil, false // address of the field escapes
					}
				}
			case *ssa.Store:
				if y.Addr != addr {
					if _, isHolder := y.Addr.(*ssa.Alloc); isHolder {
						continue // pointer spilled into a local: handled by cellAliases
					}
					return nil, false
				}
				sub, ok := fieldOfStructValue(y.Val, i, y, d+1)
				if !ok {
					return nil, false
				}
				out = append(out, sub...)
			case *ssa.UnOp, *ssa.DebugRef, *ssa.MakeClosure, *ssa.Return, *ssa.Phi:
			case ssa.CallInstruction:
				cal := calleeOf(y.Common())
				if cal == nil || curProg == nil || !curProg.InModule(cal) {
					return nil, false // handed to code we do not see
				}
			default:
				return nil, false
			}
		}
	}
	return out, true
}

// fieldOfStructValue: origins of field i of the struct value w.
func fieldOfStructValue(w ssa.Value, i int, at ssa.Instruction, d int) ([]originVal, bool) {
	if d > 14 {
		return nil, false
	}
	switch x := strip(w).(type) {
	case *ssa.Const:
		return nil, true // zero value: the field holds its zero value (no origin)
	case *ssa.UnOp:
		if x.Op == token.MUL {
			return fieldOfAddr(x.X, i, at, d+1)
		}
	case *ssa.Parameter:
		if curProg == nil {
			return nil, false
		}
		sites := curProg.callers[x.Parent()]
		idx := paramIndex(x)
		if len(sites) == 0 || idx < 0 {
			return nil, false
		}
		var out []originVal
		for _, cs := range sites {
			args := cs.Call.Common().Args
			if idx >= len(args) {
				return nil, false
			}
			sub, ok := fieldOfStructValue(args[idx], i, cs.Call, d+1)
			if !ok {
				return nil, false
			}
			out = append(out, sub...)
		}
		return out, true
	case *ssa.Phi:
		var out []originVal
		for _, e := range x.Edges {
			sub, ok := fieldOfStructValue(e, i, at, d+1)
			if !ok {
				return nil, false
			}
			out = append(out, sub...)
		}
		return out, true
	case *ssa.Call:
		cal := calleeOf(&x.Call)
		if cal == nil || cal.Blocks == nil || curProg == nil || !curProg.InModule(cal) {
			return nil, false
		}
		var out []originVal
		for _, r := range returnsOf(cal) {
			if len(r.Results) != 1 {
				return nil, false
			}
			sub, ok := fieldOfStructValue(returnedValue(r, 0), i, r, d+1)
			if !ok {
				return nil, false
			}
			// values inside the constructor are expressed over its parameters: remember what this call binds them to
			for k := range sub {
				ne := env{}
				for pk, pv := range sub[k].E {
					ne[pk] = pv
				}
				for pi, prm := range cal.Params {
					if pi < len(x.Call.Args) {
						if _, bound := ne[prm]; !bound {
							ne[prm] = x.Call.Args[pi]
						}
					}
				}
				sub[k].E = ne
			}
			out = append(out, sub...)
		}
		return out, true
	}
	return nil, false
}

// isSentinelErrorVar: a package-level variable of type error named Err*/err* (ErrLockBusy, errNoReadyTasks): its value is
// a fixed non-nil error.
func isSentinelErrorVar(g *ssa.Global) bool {
	pt, ok := g.Type().Underlying().(*types.Pointer)
	if !ok || pt.Elem().String() != "error" {
		return false
	}
	n := g.Name()
	return strings.HasPrefix(n, "Err") || strings.HasPrefix(n, "err")
}

// fieldOfStructValueOrAddr: origins of field i of base, which is either a struct value or the address of a struct.
func fieldOfStructValueOrAddr(base ssa.Value, i int, at ssa.Instruction) ([]originVal, bool) {
	if _, isPtr := base.Type().Underlying().(*types.Pointer); isPtr {
		return fieldOfAddr(base, i, at, 0)
	}
	return fieldOfStructValue(base, i, at, 0)
}

// rangeSliceOf: hdr is the header of a `for i/_, x := range S` loop over a slice (the rotated range loop go/ssa
// builds: index phi, `i+1 < len(S)` test); returns S.
func rangeSliceOf(hdr *ssa.BasicBlock) ssa.Value {
	if len(hdr.Instrs) == 0 {
		return nil
	}
	iff, ok := hdr.Instrs[len(hdr.Instrs)-1].(*ssa.If)
	if !ok {
		return nil
	}
	bo, ok := iff.Cond.(*ssa.BinOp)
	if !ok || bo.Op != token.LSS {
		return nil
	}
	cl, ok := bo.Y.(*ssa.Call)
	if !ok || calleeFullName(&cl.Call) != "builtin len" || len(cl.Call.Args) != 1 {
		return nil
	}
	if _, isSlice := cl.Call.Args[0].Type().Underlying().(*types.Slice); !isSlice {
		return nil
	}
	// the left side is the incremented index phi of this header
	inc, ok := bo.X.(*ssa.BinOp)
	if !ok || inc.Op != token.ADD {
		return nil
	}
	if ph, ok := inc.X.(*ssa.Phi); !ok || ph.Block() != hdr {
		return nil
	}
	return strip(cl.Call.Args[0])
}

// mustPassEdgesForall: every path to blk traverses one of pass - or blk sits in a range loop over a slice S that is
// preceded by another range loop over the same S in which every iteration either traverses one of pass or leaves the
// function (validate every element first, then act on every element: the all-or-nothing shape of multi-item commands).
func mustPassEdgesForall(f *ssa.Function, blk *ssa.BasicBlock, pass map[edge]bool) bool {
	if mustPassEdges(f, blk, pass) {
		return true
	}
	if len(pass) == 0 {
		return false
	}
	for h2 := blk; h2 != nil; h2 = h2.Idom() {
		if !isLoopHeader(h2) || !loopBlocks(h2)[blk] {
			continue
		}
		s2 := rangeSliceOf(h2)
		if s2 == nil {
			continue
		}
		for _, h1 := range f.Blocks {
			if h1 == h2 || !isLoopHeader(h1) || !h1.Dominates(h2) {
				continue
			}
			lb := loopBlocks(h1)
			if lb[h2] || rangeSliceOf(h1) != s2 || len(h1.Succs) != 2 {
				continue
			}
			outside := map[*ssa.BasicBlock]bool{}
			for _, b := range f.Blocks {
				if !lb[b] {
					outside[b] = true
				}
			}
			body := h1.Succs[0]
			if !lb[body] || body == h1 {
				continue
			}
			if !reach(body, pass, outside)[h1] {
				return true
			}
		}
	}
	return false
}
