package main

// Path-sensitive CFG search (refinement of E2): explores (block, facts) states, where facts
// remember the outcome of branch conditions already taken on the path and the constant a
// bool/string phi received from the edge it was entered by. A later test of the same
// condition must agree. Facts are dropped when the path re-enters a block that (re)defines
// a value the fact depends on, or crosses an update of a map a looked-up fact depends on.
// The search only prunes infeasible paths, so "no path found" is a sound must-answer.

import (
	"fmt"
	"go/constant"
	"go/token"
	"sort"
	"strings"

	"golang.org/x/tools/go/ssa"
)

type psQuery struct {
	F       *ssa.Function
	Start   *ssa.BasicBlock          // default entry
	Removed map[edge]bool            // edges that may not be traversed (guard pass edges)
	Via     *ssa.BasicBlock          // if set: the path must pass through this block
	Blocked map[*ssa.BasicBlock]bool // blocks that may not be entered
	Targets map[*ssa.BasicBlock]bool // success: reach any of these (after Via, if set)
	Limit   int
	Seed    []psSeed // branch outcomes assumed known from the entry on (a parameter's truth value)
	ViaSeed []psSeed // ... known from the moment the path passes Via (what a call made there establishes)
}

// psSeed: the bool value V is assumed to be Truth; or (A set) the atom A is assumed to hold / not to hold.
type psSeed struct {
	V     ssa.Value
	Truth bool
	A     *Atom
}

// seedFact turns an assumption into the fact a branch on the same condition will look up.
func (c *Ctx) seedFact(sd psSeed) *psFact {
	var a Atom
	holds := sd.Truth
	if sd.A != nil {
		a = *sd.A
	} else {
		var pos bool
		a, pos = decompose(sd.V)
		holds = sd.Truth == pos
	}
	key, defs, maps := c.atomKey(a)
	val := "F"
	if holds {
		val = "T"
	}
	return &psFact{key: key, val: val, defs: defs, maps: maps, x: strip(a.X)}
}

type psFact struct {
	key   string
	val   string // "T"/"F" for conditions, constant text for phis
	defs  map[*ssa.BasicBlock]bool
	maps  map[string]bool // canon of maps the fact depends on + "|" + key ("*" unknown)
	x     ssa.Value       // the tested value the fact was recorded for
	stale bool            // a map the value was looked up in has been written since: valid for x itself only
}

type psState struct {
	blk    *ssa.BasicBlock
	facts  map[string]*psFact
	passed bool
}

func (s *psState) id() string {
	ks := make([]string, 0, len(s.facts))
	for k, f := range s.facts {
		st := ""
		if f.stale {
			st = "~"
		}
		ks = append(ks, k+"="+f.val+st)
	}
	sort.Strings(ks)
	return fmt.Sprintf("%d|%v|%s", s.blk.Index, s.passed, strings.Join(ks, ";"))
}

// atomKey gives a stable key for a branch atom, the blocks defining its operands and its map dependencies.
func (c *Ctx) atomKey(a Atom) (key string, defs map[*ssa.BasicBlock]bool, maps map[string]bool) {
	defs = map[*ssa.BasicBlock]bool{}
	maps = map[string]bool{}
	collect := func(v ssa.Value) {
		seen := map[ssa.Value]bool{}
		var walk func(x ssa.Value, d int)
		walk = func(x ssa.Value, d int) {
			if x == nil || d > 10 || seen[x] {
				return
			}
			seen[x] = true
			if in, ok := x.(ssa.Instruction); ok && in.Block() != nil {
				defs[in.Block()] = true
				if lk, ok := x.(*ssa.Lookup); ok {
					k := "*"
					if s, ok := constString(lk.Index); ok {
						k = s
					}
					maps[c.canon(lk.X)+"|"+k] = true
				}
				if cl, ok := x.(*ssa.Call); ok {
					// call results are facts about that one call instance only
					_ = cl
				}
				for _, op := range in.Operands(nil) {
					if *op != nil {
						walk(*op, d+1)
					}
				}
			}
		}
		walk(v, 0)
	}
	switch a.Kind {
	case "nil":
		key = "nil:" + c.canon(a.X)
		collect(a.X)
	case "const":
		key = "eq:" + c.canon(a.X) + "==" + a.C.String()
		collect(a.X)
	case "bool":
		key = "bool:" + c.canon(a.X)
		collect(a.X)
	default:
		key = "cmp:" + c.canon(a.X) + a.Op.String() + c.canon(a.Y)
		collect(a.X)
		collect(a.Y)
	}
	return
}

// phiConst: when entering blk from pred, the constants its phis receive.
func phiConstsOnEdge(pred, blk *ssa.BasicBlock, phiCopies map[*ssa.Phi]*ssa.Phi) map[*ssa.Phi]*ssa.Const {
	out := map[*ssa.Phi]*ssa.Const{}
	idx := -1
	for i, p := range blk.Preds {
		if p == pred {
			idx = i
		}
	}
	if idx < 0 {
		return out
	}
	for _, in := range blk.Instrs {
		ph, ok := in.(*ssa.Phi)
		if !ok {
			break
		}
		if cst, ok := ph.Edges[idx].(*ssa.Const); ok {
			out[ph] = cst
		} else {
			out[ph] = nil
		}
		if src, ok := ph.Edges[idx].(*ssa.Phi); ok {
			phiCopies[ph] = src
		}
	}
	return out
}

func phiIncoming(ph *ssa.Phi, pred *ssa.BasicBlock) ssa.Value {
	for i, p := range ph.Block().Preds {
		if p == pred {
			return ph.Edges[i]
		}
	}
	return nil
}

// mapWritesIn lists (canon(map), key) pairs updated in blk.
func (c *Ctx) mapWritesIn(blk *ssa.BasicBlock) []string {
	var out []string
	for _, in := range blk.Instrs {
		switch x := in.(type) {
		case *ssa.MapUpdate:
			k := "*"
			if s, ok := constString(x.Key); ok {
				k = s
			}
			out = append(out, c.canon(x.Map)+"|"+k)
		case *ssa.Call:
			if calleeFullName(&x.Call) == "builtin delete" && len(x.Call.Args) == 2 {
				k := "*"
				if s, ok := constString(x.Call.Args[1]); ok {
					k = s
				}
				out = append(out, c.canon(x.Call.Args[0])+"|"+k)
			}
		}
	}
	return out
}

// pathExists answers whether a feasible-looking path exists; witness lists the block indices.
func (c *Ctx) pathExists(q psQuery) (bool, []int) {
	f := q.F
	start := q.Start
	if start == nil {
		start = f.Blocks[0]
	}
	limit := q.Limit
	if limit == 0 {
		limit = 60000
	}
	type node struct {
		st   *psState
		prev *node
	}
	init := &psState{blk: start, facts: map[string]*psFact{}, passed: q.Via == nil || q.Via == start}
	for _, sd := range q.Seed {
		f := c.seedFact(sd)
		init.facts[f.key] = f
	}
	if init.passed {
		for _, sd := range q.ViaSeed {
			f := c.seedFact(sd)
			init.facts[f.key] = f
		}
	}
	seen := map[string]bool{init.id(): true}
	stack := []*node{{init, nil}}
	explored := 0
	witness := func(n *node) []int {
		var w []int
		for ; n != nil; n = n.prev {
			w = append(w, n.st.blk.Index)
		}
		for i, j := 0, len(w)-1; i < j; i, j = i+1, j-1 {
			w[i], w[j] = w[j], w[i]
		}
		return w
	}
	for len(stack) > 0 {
		n := stack[len(stack)-1]
		stack = stack[:len(stack)-1]
		s := n.st
		explored++
		if explored > limit {
			return true, nil // give up conservatively: assume a path exists
		}
		if s.passed && q.Targets[s.blk] {
			return true, witness(n)
		}
		// branch handling
		var allowed []int
		var newFact *psFact
		var factOnTrue bool
		if len(s.blk.Instrs) > 0 {
			if iff, ok := s.blk.Instrs[len(s.blk.Instrs)-1].(*ssa.If); ok {
				a, pos := decompose(iff.Cond)
				decided, val := false, false
				// phi with known constant
				if a.Kind == "bool" {
					if ph, ok := strip(a.X).(*ssa.Phi); ok {
						if fct := s.facts["phi:"+ph.Name()+fmt.Sprint(ph.Pos())+ph.Parent().Name()+fmt.Sprint(ph.Block().Index)]; fct != nil {
							decided, val = true, fct.val == "true"
						}
					}
				}
				if a.Kind == "const" && !decided {
					if ph, ok := strip(a.X).(*ssa.Phi); ok {
						if fct := s.facts["phi:"+ph.Name()+fmt.Sprint(ph.Pos())+ph.Parent().Name()+fmt.Sprint(ph.Block().Index)]; fct != nil && a.C.Value != nil {
							decided, val = true, fct.val == a.C.Value.ExactString()
						}
					}
				}
				key, defs, maps := c.atomKey(a)
				effX := strip(a.X)
				if ph, ok := strip(a.X).(*ssa.Phi); ok && (a.Kind == "const" || a.Kind == "nil" || a.Kind == "bool") {
					pk := "phi:" + ph.Name() + fmt.Sprint(ph.Pos()) + ph.Parent().Name() + fmt.Sprint(ph.Block().Index)
					if al := s.facts["alias:"+pk]; al != nil {
						switch a.Kind {
						case "const":
							key = "eq:" + al.val + "==" + a.C.String()
						case "nil":
							key = "nil:" + al.val
						case "bool":
							key = "bool:" + al.val
						}
						effX = strip(al.x)
						for b := range al.defs {
							defs[b] = true
						}
						for m := range al.maps {
							maps[m] = true
						}
					}
				}
				if !decided {
					if fct := s.facts[key]; fct != nil && (!fct.stale || fct.x == effX) {
						decided, val = true, fct.val == "T"
					}
				}
				if decided {
					// atom holds == val ; true-edge taken iff (val == pos)
					if val == pos {
						allowed = []int{0}
					} else {
						allowed = []int{1}
					}
				} else {
					allowed = []int{0, 1}
					newFact = &psFact{key: key, defs: defs, maps: maps, x: effX}
					factOnTrue = pos
				}
			}
		}
		if allowed == nil {
			for i := range s.blk.Succs {
				allowed = append(allowed, i)
			}
		}
		for _, i := range allowed {
			if i >= len(s.blk.Succs) {
				continue
			}
			e := edge{s.blk, i}
			if q.Removed[e] {
				continue
			}
			to := s.blk.Succs[i]
			if q.Blocked[to] {
				continue
			}
			nf := map[string]*psFact{}
			for k, v := range s.facts {
				nf[k] = v
			}
			if newFact != nil {
				cp := *newFact
				if (i == 0) == factOnTrue {
					cp.val = "T"
				} else {
					cp.val = "F"
				}
				nf[cp.key] = &cp
			}
			// invalidate facts whose operands are (re)defined in `to`, or whose maps are written in `to`
			writes := c.mapWritesIn(to)
			for k, fct := range nf {
				if fct.defs[to] {
					delete(nf, k)
					continue
				}
				for _, w := range writes {
					wm, wk, _ := strings.Cut(w, "|")
					for dep := range fct.maps {
						dm, dk, _ := strings.Cut(dep, "|")
						if dm == wm && (dk == wk || dk == "*" || wk == "*") {
							if strings.HasPrefix(k, "alias:") {
								continue // an alias names one SSA value; map writes do not change it
							}
							cp := *fct
							cp.stale = true
							nf[k] = &cp
						}
					}
				}
			}
			// phi constants received on this edge
			copies := map[*ssa.Phi]*ssa.Phi{}
			phiKey := func(ph *ssa.Phi) string {
				return "phi:" + ph.Name() + fmt.Sprint(ph.Pos()) + ph.Parent().Name() + fmt.Sprint(ph.Block().Index)
			}
			for ph, cst := range phiConstsOnEdge(s.blk, to, copies) {
				k := phiKey(ph)
				if cst == nil || cst.Value == nil {
					if src := copies[ph]; src != nil && s.facts[phiKey(src)] != nil {
						nf[k] = &psFact{key: k, val: s.facts[phiKey(src)].val, defs: map[*ssa.BasicBlock]bool{}}
						continue
					}
					delete(nf, k)
					// alias: on this path the phi is a copy of the incoming value
					if inc := phiIncoming(ph, s.blk); inc != nil {
						_, defs, maps := c.atomKey(Atom{Kind: "bool", X: inc})
						ak := "alias:" + k
						nf[ak] = &psFact{key: ak, val: c.canon(inc), defs: defs, maps: maps, x: inc}
					}
					continue
				}
				delete(nf, "alias:"+k)
				v := cst.Value.ExactString()
				if cst.Value.Kind() == constant.Bool {
					v = fmt.Sprint(constant.BoolVal(cst.Value))
				}
				nf[k] = &psFact{key: k, val: v, defs: map[*ssa.BasicBlock]bool{}}
			}
			if !s.passed && to == q.Via {
				for _, sd := range q.ViaSeed {
					f := c.seedFact(sd)
					nf[f.key] = f
				}
			}
			ns := &psState{blk: to, facts: nf, passed: s.passed || to == q.Via}
			id := ns.id()
			if seen[id] {
				continue
			}
			seen[id] = true
			stack = append(stack, &node{ns, n})
		}
	}
	return false, nil
}

var _ = token.NOT
